#!/bin/bash
# Run the repository's pinned baseline (hooks OFF) and compare with BASELINE.json's stable_pass list.
# usage: repo_tests.sh [repo-dir]   (default /repo)
set -u
REPO=${1:-/repo}
cd "$REPO" || exit 2
export CARGO_NET_OFFLINE=true
OUT=$(mktemp /dev/shm/repo-tests.XXXXXX)
rm -f "$REPO/target/nextest/pb/junit.xml"
cargo nextest run --workspace --no-fail-fast --tool-config-file pb:/w/lib/nextest.toml --profile pb --test-threads 8 --offline >"$OUT" 2>&1
python3 - "$REPO/target/nextest/pb/junit.xml" <<'PY'
import json,sys
import xml.etree.ElementTree as ET
base=json.load(open('/root/.vp/BASELINE.json'))
want=set(base['stable_pass'])
passed=set(); failed=set()
root=ET.parse(sys.argv[1]).getroot()
for suite in root.iter('testsuite'):
    sname=suite.get('name')
    for tc in suite.iter('testcase'):
        full=sname+'::'+tc.get('name')
        bad=any(ch.tag in ('failure','error') for ch in tc)
        skipped=any(ch.tag=='skipped' for ch in tc)
        if bad: failed.add(full)
        elif not skipped: passed.add(full)
missing=sorted(w for w in want if w not in passed)
print(f"passed={len(passed)} failed={len(failed)} baseline={len(want)} baseline_missing={len(missing)}")
for f in sorted(failed): print("FAILED:",f)
for m_ in missing[:20]: print("BASELINE TEST NOT PASSING:",m_)
sys.exit(1 if missing else 0)
PY
rc=$?
tail -3 "$OUT"
rm -f "$OUT"
exit $rc
