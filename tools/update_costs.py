#!/usr/bin/env python3
"""usage: tools/update_costs.py <quick run_all log> <thorough run_all log>...
Rewrite the numbers (evaluations; seconds) of the cost table in DESIGN.md section 7 from run_all.sh output."""
import re, sys
def parse(paths):
    d = {}
    for p in paths:
        for l in open(p):
            m = re.match(r"seed=1 (C\d\d) rc=(\d+) (\d+)s .*evaluations=(\d+)", l)
            if m:
                d[m.group(1)] = (int(m.group(4)), int(m.group(3)))
    return d
def fmt(n):
    return f"{n:,}".replace(",", " ")
quick = parse(sys.argv[1:2]); thorough = parse(sys.argv[2:])
out = []
for l in open("/verif/DESIGN.md").read().split("\n"):
    m = re.match(r"^\| (C\d\d) \| ", l)
    if m and l.count("|") == 5 and ("; " in l):
        cid = m.group(1)
        cells = l.split(" | ")
        if cid in quick:
            q = cells[2]
            parts = q.split("; ")
            # keep the description, replace the trailing "<evals>; <s> s" (or just "<s> s")
            if re.search(r"\d+ s$", parts[-1].strip()):
                parts[-1] = f"{quick[cid][1]} s"
                if len(parts) >= 3 and re.fullmatch(r"[\d  ·¹⁰⁷.]+( \w+)?", parts[-2].strip()):
                    parts[-2] = fmt(quick[cid][0]) + (" " + parts[-2].strip().split(" ")[-1] if re.search(r"[a-z]", parts[-2]) else "")
                cells[2] = "; ".join(parts)
        if cid in thorough:
            cells[3] = f"{fmt(thorough[cid][0])}; {thorough[cid][1]} s |"
        l = " | ".join(cells)
    out.append(l)
open("/verif/DESIGN.md", "w").write("\n".join(out))
print("updated", sorted(quick), sorted(thorough))
