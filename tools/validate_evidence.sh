#!/bin/bash
# validate every evidence file against the schema
for f in /verif/evidence/*.json; do
python3-vt -c "import json,jsonschema,sys;jsonschema.validate(json.load(open('$f')),json.load(open('/root/.vp/EVIDENCE.schema.json')));print('ok $f')" || echo "INVALID $f"
done
