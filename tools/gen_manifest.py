#!/usr/bin/env python3
"""Regenerate /verif/MANIFEST.json from the table below and validate it against the schema."""
import json, os, subprocess, sys

HERE = os.path.dirname(os.path.dirname(os.path.abspath(__file__)))

HOOK_COMMITS = ["02df5bf"]

# id -> (level, technique, text, note, design_ref)
CHECKS = {
 "C01": ("exploration", "runtime monitor: restore-and-compare oracle over generated trees x option sets",
         "Generated hostile trees x all 216 option combinations are backed up and restored by the real code; an independent lstat/readlink/read walker compares source and result (bytes, kinds, targets, ns mtimes incl. pre-epoch, all 0..0o7777 modes, owners as root) and requires zero reported errors. Part of the cases run on a multi-thread runtime; one tree of 10 040 files is backed up with one entry per index hunk and with all entries in one hunk; sources include fifos, sockets and files named CACHEDIR.TAG without the signature. Exploration is the right level: the input space is unbounded, the oracle is exact.",
         "Trusted: the harness walker and tmpfs semantics (/dev/shm); expected values are what the file system actually holds. Release profile.", "3 C01"),
 "C02": ("exploration", "runtime monitor: snapshot model of versions checked by restore-and-compare after every step of generated histories",
         "Random histories of tree mutations, backups with random options, backups killed at a random storage operation, deletes, dry runs and gcs run against the real code; after every step every surviving complete version is restored (by id and via LatestClosed) and compared with the snapshot its backup saw. Band numbering is fast-forwarded so that short histories cross b0009/b0010 ... b9999/b10000; every 25th history runs on a wide and deep tree; one history runs on a tree whose versions have more than 10 000 index hunks. Exploration of an unbounded history space with an exact oracle.",
         "Trusted: harness snapshot walker; stop-the-world modelled by refusing every later storage operation; logical clock supplies the 'new mtime or size' precondition.", "3 C02"),
 "C03": ("fault_enumeration", "runtime monitor: every crash point (and torn write) of a recorded storage trace replayed; independent format reader + stitch model + restore oracle at each state",
         "For each scenario EVERY operation index of the backup's storage trace is a crash point (plus the torn-write variant for every write); at each resulting archive state the five clauses of the statement are decided by independent oracles (the interrupted version is listed whole and below one path, and restored). Exhaustive over crash points within each scenario, sampled over scenarios.",
         "Trusted: E2 reader (snap, serde_json, blake2-rfc); the interceptor sees every storage effect (all archive I/O goes through Transport); kill = no further storage effect.", "3 C03"),
 "C04": ("fault_enumeration", "runtime monitor: every single storage fault (4 kinds) of a recorded trace + random multi-fault runs; independent decode of every recorded entry against source bytes",
         "For each scenario EVERY operation of the backup's storage trace fails once with each of four error kinds, plus random multi-fault sequences real partial writes (the backup runs in a child under RLIMIT_FSIZE), persistent faults addressed by path, and pairs of consecutive faults (operation k and whatever follows it, all kind pairs); afterwards every file entry of every band is resolved through the raw blocks by the independent reader and compared with the bytes that path had in that band's source, earlier files must be byte-identical, and a run reporting full success must restore exactly.",
         "Trusted: E2 reader; a fault returns an error without executing the operation.", "3 C04"),
 "C05": ("fault_enumeration", "runtime monitor: all subsets x {dry, real} x every crash point x every failing read of delete_bands; independent reference scan + restore oracle",
         "For generated archives every subset of versions, named in random order, is deleted (dry and real); a pre-placed GC_LOCK must be respected and left alone; gc and deletes also run on versions with more than 10 000 index hunks and on the repository's archives written by earlier releases; every path the delete reads also fails persistently; for real deletes every crash point of the delete's storage trace and every read/list/metadata fault of four kinds is replayed; an independent reference scan and restore-and-compare of every kept complete version decide the outcome.",
         "Trusted: E2 reader; kill = no later storage effect.", "3 C05"),
 "C06": ("exploration", "runtime monitor: deterministic scheduler parks every storage operation of a backup and a gc running on their own threads; all schedules to a preemption bound + random; restore + reference-scan oracle at the end",
         "Backup and gc/delete run concurrently on one archive with every storage operation parked until a deterministic scheduler grants it; all schedules with <=1 preemption, all 2-preemption schedules of one scenario (every scenario in the thorough tier) random 3-5-switch schedules and targeted 3-preemption plans are executed, plus all schedules up to two preemptions with a fault on the backup's second look for the lock, and with the collector's break_lock option set, against the real code, over archives with garbage blocks that the backup deduplicates against. After both finish every complete version must restore exactly and reference no removed block.",
         "Granularity is one storage operation (all archive I/O goes through Transport); interleavings beyond preemption bound 2 are sampled. Trusted: settled-detection of the scheduler (park callbacks + tracked top-level waker), E2 reader.", "3 C06"),
 "C07": ("exploration", "runtime monitor: write-once rules checked on the logged storage operations (with pre/post file state) of histories and of two racing backups under the deterministic scheduler",
         "Every mutating storage operation of every backup, interrupted/torn/resumed backup, delete and gc in generated histories is logged with the target's state before and after and checked against the write-once rules (including one history on a version of more than 10 000 index hunks, and delete attempts under a foreign GC_LOCK); a gc and a delete race for the lock under the same scheduler with lock-ownership rules; backup races are repeated with a BANDHEAD write failing (connection error); two concurrent backups are run under all schedules to preemption bound 1, a grid (thorough: all) of bound 2 and random schedules, with the same rules on the merged log plus single-owner bands and exactly-one-winner.",
         "Trusted: interceptor sees every storage effect; pre/post states read while the issuing actor is the only one running; E2 reference scan.", "3 C07"),
 "C08": ("exploration", "runtime monitor: executable stitching rule compared with the real listing on harness-written archives, bounded-exhaustive + random",
         "Every arrangement of complete/incomplete/hunk-less/absent bands over small path alphabets and every hunk split (exhaustive for (B=2,P=4) and (B=3,P=3); thorough adds (B=4,P=2) and (B=3,P=4)) is written by the harness's own format writer and listed by the real code for every N; the result must equal an executable statement of the stitching rule, be strictly increasing, and finish within an operation budget; filter variants on a sample; random larger archives with removed hunks; band states include head-less directories and empty BANDHEAD files; one archive with more than 10 000 one-entry hunks per version, one with a chain of 130 interrupted versions, and listings with every read / listing failing once.",
         "Trusted: fmt06 writer/reader, oracle::stitch_model and oracle::apath_cmp as restatements of the documented rules. Termination is decided as bounded progress (operation budget).", "3 C08"),
 "C09": ("fault_enumeration", "runtime monitor: validate observed after every step of fault-free histories; every single-file damage of generated archives judged by restore-based harm oracle vs validate's report",
         "Healthy side: full and quick validation after every archive-changing step of generated histories (a third of them with names of exactly 255 bytes), and of two large archives written with default options (a combined block above the block size, a multi-block file, 300 blocks), must be silent, on both runtime flavours. Damage side: for EVERY file of generated archives x {delete, truncate 0, truncate half, garbage} and 8 bit flips per block, harm is decided by restoring every complete version and comparing with its pre-damage tree; every harmful damage must be reported by full validation (and deletions by quick validation), also with a stale GC_LOCK in the archive; a 300-block archive is validated in a process limited to 160 open files.",
         "Trusted: restore-and-compare as the definition of harm; 'version' restricted to complete versions.", "3 C09"),
 "C10": ("fault_enumeration", "runtime monitor: every single-file damage of generated archives run through a child process; crash/termination, containment and follow-up-backup oracles; valgrind memcheck replay of hostile-byte cases",
         "For EVERY file of generated archives x {delete, truncate 0, truncate half, garbage} plus seeded bit flips in every file and JSON-level flips and out-of-range field values that keep hunks, heads and tails decodable, plus hunk damage on both sides of the index-subdirectory boundary of a 10 040-hunk version, a child process (for a quarter of the damages also one that holds and keeps using an Archive handle opened before the damage) runs versions / ls / restore of every band (whole, and restricted to up to four top-level directories) / validate full+quick / backup / restore; the parent decides normal termination (panic, abort, signal, operation-budget overrun), exact restoration of every entry that does not depend on the damaged file, error reporting for entries whose hunk or block became missing or undecodable or whose band's head is present but unreadable, and an exact follow-up backup after deletions and truncations. A sample of hostile-byte cases is replayed under valgrind memcheck.",
         "Trusted: E2 reader for the dependency analysis; 'hang' is decided as an operation budget (1000x fault-free), wall-clock watchdog is inconclusive; AddressSanitizer build was not possible (old rustix in the dependency tree does not build on nightly), memcheck is used instead.", "3 C10"),
 "C11": ("exploration", "runtime monitor: executable order/validity model compared with Apath on exhaustive small alphabets + emitters observed on generated trees",
         "All pairs/triples of valid paths over two alphabets up to depth 4/3 and every string over a 13-component alphabet (exhaustive within the bound) are compared against an independent statement of the documented order and validity rule; the source walk, listings (also of versions stitched from chains of killed backups, and of a version with more than 10 000 hunks) and independently decoded hunks of generated trees must be strictly increasing under it, also for trees holding names that are not UTF-8, and for the indexes written by first backups in which any one write (block, hunk, head, tail) was refused.",
         "Trusted: oracle::apath_key as restatement of doc/format.md; snap + serde_json to decode hunks.", "3 C11"),
 "C12": ("exploration", "runtime monitor: subtree listings for every entry and non-existent paths vs component-wise filter of the full listing; subtree restores vs full restore",
         "Generated trees with multi-byte names and siblings that extend one another; the real subtree listing is compared for every possible S with the component-wise filter of the full listing, and restore(only_subtree=S) for every directory with the same subtree of a full restore (bytes and metadata), nothing else created; also in versions with more than 10 000 index hunks and with 10 000 entries in one hunk.",
         "Trusted: harness walker; the full listing/restore as reference.", "3 C12"),
 "C13": ("exploration", "runtime monitor: independent format-0.6 reader checks every documented invariant after every archive-changing step of generated histories",
         "After every backup, interrupted backup, delete and gc of generated histories (options chosen to produce every layout, wide and deep trees, a 10 051-hunk band, backups under a file-size limit (writes failing part-way), stored files above 2 MiB, and backups during which files of the source are truncated, extended, replaced or removed underneath) an independent reader built from doc/format.md re-derives every invariant in the statement from the raw files.",
         "Trusted: snap, serde_json, blake2-rfc; the reader follows the code where the document and the code disagree on a key name (len vs length).", "3 C13"),
 "C14": ("fault_enumeration", "runtime monitor: block-write events from the interceptor log (with pre-states) over histories; every crash point of an interrupted run followed by a resumed run",
         "Write events under d/ are observed at the storage boundary: zero for an unchanged tree with identical decoded addresses, never for an existing non-empty block in any history, and for EVERY crash point of the interrupted run the resumed run writes none of the blocks left behind and reuses every recorded entry; scenarios with 9-20 MiB blocks and duplicate large content, far and future mtimes, a tree of more than 10 000 hunks, second backups with the owner option switched off, archives in which another program has left files of its own (.DS_Store beside the bands, in a band, in its index directory) and a hunk of tens of megabytes are included.",
         "Trusted: interceptor sees every write attempt; E2 reader.", "3 C14"),
 "C15": ("exploration", "runtime monitor: stored / listed / restored path sets under exclusions vs an independent glob oracle",
         "Generated trees x pattern sets (anchored, unanchored, wildcards, classes, alternation, '**' as a component and glued to a name, other-case names, names and patterns beginning with '#', directories with children, non-ASCII, long lists, combined with a subtree selection, directories of hundreds of mostly-excluded files, more than a thousand excluded directories): the three code paths (walk pruning at backup, per-entry filter at list and at restore) are observed and each compared with the rule 'omitted iff it or an ancestor matches' evaluated by globs built from the raw patterns.",
         "Trusted: globset for what one glob matches; E2 reader for the stored entries.", "3 C15"),
 "C16": ("exploration", "runtime monitor: lstat+content+ctime snapshots of the area around the destination before/after every restore, incl. stitched versions with entries below a symlink",
         "Source trees full of symlinks aimed at sentinel files and directories beside the destination (relative, absolute, '..', '/') are backed up and restored under several selections and destination states while a recursive snapshot including ctime watches everything outside the destination; non-empty destinations must be refused untouched; a version is restored with overwrite over a restore of another version in which its directories and files were symlinks; versions stitched (from two and three bands) from backups killed after a directory became a symlink (leading outside directly, or only by way of a link or directory that the same restore creates later) are restored too.",
         "Trusted: ctime as witness of metadata writes through links; links in a pre-populated destination come only from restoring another version of the same archive.", "3 C16"),
 "C17": ("exploration", "runtime monitor: lock-step replay of histories into replica archives on differently scheduled runtimes, byte comparison after every step",
         "Each generated history is executed from the same on-disk source states into a reference archive (current-thread runtime) and into replicas on 2- and 8-worker runtimes with random yields and sleeps before every storage operation and, in every second history, with trace-level diagnostics switched on (a tracing subscriber that takes and discards everything on the replicas' threads); after every step the full directory trees must be byte-identical modulo head/tail timestamps; histories include deletes during which the removal of one particular block fails, index hunks garbled identically in every copy, a tree of more than 10 000 hunks, a replay before and after the wall clock passes a file's mtime, and replays on storage with a stalled operation (real time and tokio's virtual clock).",
         "Scheduling diversity comes from runtime flavour, worker count and injected jitter; no separate-process replay.", "3 C17"),
 "C18": ("exploration", "runtime monitor: diff stream and backup change callback vs classification computed from two lstat snapshots",
         "Generated trees and mutation sets; diff(version, tree) with and without include_unchanged must equal, entry for entry and in order, the classification computed independently from the harness's snapshots, and the next backup's change callback must name the same added/changed/deleted files; owners with an unnamed user or group, fifos and sockets, a diff with an exclusion, a SourceTree handle kept across the changes (with the top directory's own mode changed) and a version with more than 10 000 hunks are included.",
         "Trusted: harness walker; named uid/gid mapping is one-to-one.", "3 C18"),
}

NOT_YET = "check not built yet (planned, see DESIGN.md section 3)"

def main():
    props = [json.loads(l)["id"] for l in open(os.path.join(HERE, "properties.jsonl"))]
    checks = []
    na = []
    for pid in props:
        if pid in CHECKS:
            level, tech, text, note, ref = CHECKS[pid]
            checks.append({
                "property_id": pid,
                "quick_cmd": f"./check {pid} quick",
                "thorough_cmd": f"./check {pid} thorough",
                "evidence_file": f"/verif/evidence/{pid}.json",
                "replay_cmd_template": f"./check {pid} quick --replay {{path}}",
                "engine": "cv",
                "level_claimed": {"category": level, "text": text, "design_ref": f"DESIGN.md {ref}"},
                "level_note": note,
                "technique": tech,
            })
        else:
            na.append({"property_id": pid, "reason": NOT_YET})
    m = {
        "version": 1,
        "setup_cmd": "cd /verif/harness && CARGO_NET_OFFLINE=true cargo build --release --offline",
        "hooks": {
            "guard": "cargo feature verif_hooks",
            "enable": "the harness crate depends on conserve = { path = \"/repo\", default-features = false, features = [\"verif_hooks\"] }, so every ./check rebuilds /repo's working tree with the hook compiled in",
            "baseline_off_cmd": "cd /repo && cargo nextest run --workspace --no-fail-fast --tool-config-file pb:/w/lib/nextest.toml --profile pb --test-threads 8 --offline",
            "source_commits": HOOK_COMMITS,
            "add_only": True,
        },
        "engines": [
            {"name": "cv", "path": "/verif/harness", "serves_properties": sorted(CHECKS),
             "kind_free_text": "Rust harness linking the real conserve library with the verif_hooks transport interceptor: workload generators, fault/crash/schedule injection at the storage boundary, independent format-0.6 reader/writer, snapshot oracles, evidence writer"},
        ],
        "checks": checks,
        "notes": "Runtime monitoring only: every verdict comes from oracles observing executions of the real code. Exit 0 held on everything explored, 1 + VIOLATION line, 2 inconclusive (monitors observed too little; never expected on a working tree). Known findings: /verif/KNOWN_FINDINGS.txt (23 'fixed:' lines for the fix: commits in /repo, one 'known:' line - K2, property C04 - which C04 prints as KNOWN-FINDING on every run; see DESIGN.md section 5). A hard wall-clock watchdog (CV_HARD_S) ends a hung check with exit 2.",
        "not_applicable": na,
    }
    path = os.path.join(HERE, "MANIFEST.json")
    json.dump(m, open(path, "w"), indent=1)
    # validate
    code = "import json,jsonschema;jsonschema.validate(json.load(open('%s')),json.load(open('/root/.vp/MANIFEST.schema.json')));print('manifest valid')" % path
    r = subprocess.run(["python3-vt", "-c", code])
    sys.exit(r.returncode)

if __name__ == "__main__":
    main()
