#!/bin/bash
# usage: tools/run_all.sh <quick|thorough> [seed...]   — run every registered check, print one line each
# (CHECKS="C10 C01" in the environment restricts the run to those)
TIER=${1:-quick}; shift
SEEDS=${@:-1}
cd "$(dirname "$0")/.."
for seed in $SEEDS; do
  for id in ${CHECKS:-$(python3 -c "import json;print(' '.join(c['property_id'] for c in json.load(open('MANIFEST.json'))['checks']))")}; do
    start=$(date +%s)
    out=$(VERIF_SEED=$seed ./check $id $TIER 2>/dev/null)
    rc=$?
    end=$(date +%s)
    echo "seed=$seed $id rc=$rc $((end-start))s $(echo "$out" | grep -E "^$id (quick|thorough)" | cut -c1-160)"
    echo "$out" | grep -E "VIOLATION|KNOWN-FINDING|INCONCLUSIVE|violation detail" | cut -c1-400 | head -5
  done
done
