#!/bin/bash
# usage: tools/try_seed.sh <patch.diff> <tier> <ID> [ID...]
# Evaluate checks against a seeded change WITHOUT touching /repo: a scratch worktree of /repo's HEAD
# gets the patch, a copy of the harness is pointed at it. Prints one line per check. Cleans up.
set -u
PATCH=$(readlink -f "$1"); TIER=$2; shift 2
W=$(mktemp -d /tmp/eval-XXXXXX)
trap 'git -C /repo worktree remove --force "$W/repo" >/dev/null 2>&1; rm -rf "$W"' EXIT
git -C /repo worktree add --detach "$W/repo" HEAD >/dev/null 2>&1 || { echo "worktree failed"; exit 2; }
if ! git -C "$W/repo" apply "$PATCH"; then echo "PATCH DOES NOT APPLY"; exit 2; fi
mkdir -p "$W/harness" "$W/out"
cp -r /verif/harness/src /verif/harness/Cargo.toml /verif/harness/Cargo.lock /verif/harness/.cargo "$W/harness/"
sed -i "s#path = \"/repo\"#path = \"$W/repo\"#" "$W/harness/Cargo.toml"
cp -r /verif/harness/target "$W/target"
( cd "$W/harness" && CARGO_TARGET_DIR="$W/target" cargo build --release --offline >"$W/build.log" 2>&1 ) || { tail -20 "$W/build.log"; echo "BUILD FAILED"; exit 2; }
cp /verif/KNOWN_FINDINGS.txt "$W/out/" 2>/dev/null
for id in "$@"; do
  start=$(date +%s)
  out=$(cd "$W/out" && CV_VERIF_DIR="$W/out" "$W/target/release/cv" "$id" "$TIER" 2>/dev/null)
  rc=$?
  end=$(date +%s)
  echo "$id rc=$rc $((end-start))s $(echo "$out" | grep -E "^$id (quick|thorough)" | cut -c1-140)"
  echo "$out" | grep -E "violation detail|INCONCLUSIVE" | cut -c1-330 | head -3
done
