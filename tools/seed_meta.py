#!/usr/bin/env python3
"""Write /verif/seeded/<id>/meta.json from the table below (kept by hand after each seed was confirmed)."""
import json, os

HERE = os.path.dirname(os.path.dirname(os.path.abspath(__file__)))

COMMON_RAN = [
    "tools/verify_seed.sh seeded/<id> [--features verif_hooks]: scratch worktree of /repo HEAD; demo passes without the patch; patch applies; pinned baseline (212 tests) still passes with it; demo fails with it",
    "tools/try_seed.sh seeded/<id>/patch.diff quick <checks>: scratch worktree + copy of the harness pointed at it; unchanged tree is silent for the same checks and seed",
]

SEEDS = {
 "C01": dict(breaks="C01 (also C12)", file="src/restore.rs",
   what="the 'entry lies below a restored symlink' test became a plain string-prefix test, so after restoring symlink /lib the sibling /lib64 and everything under it is skipped with an error",
   needs="a tree with a symlink and a later path whose name textually extends the symlink's name (/README vs /README.md, /d/a vs /d/a-b)",
   demo_features="", caught_by={"C01 quick": "restore-reported-errors", "C12 quick": "full-restore-failed"}, missed_by=["C16 quick (outside area untouched, as expected)"], strengthened=None),
 "C02": dict(breaks="C02 (also C05)", file="src/archive.rs",
   what="referenced_blocks stops looking at a file's remaining addresses once it meets a block it has already seen; later blocks of a multi-block file are then unreferenced for gc",
   needs="a multi-block file whose leading block repeats (or is shared) and whose later blocks are unique, then a gc/delete of another version while this version is kept",
   demo_features="", caught_by={"C02 quick": "by-id:restore-reported-errors", "C05 quick": "referenced-block-removed"}, missed_by=[], strengthened=None),
 "C03": dict(breaks="C03 (also C08)", file="src/index/mod.rs",
   what="IndexHunkIter's whole-hunk skip/return tests compare apaths as plain strings instead of in apath order, so hunks of the older band that must be carried over are dropped when stitching",
   needs="a backup killed after >=1 hunk and before the tail, a tree with subdirectories, several hunks in the older band, and a pair of paths that order differently as strings and as apaths",
   demo_features="verif_hooks", caught_by={"C03 quick": "listing-vs-stitch-rule:differs", "C08 quick": "listing-differs-from-stitching-rule"}, missed_by=[], strengthened=None),
 "C04": dict(breaks="C04", file="src/blockdir.rs",
   what="store_or_deduplicate claims the block in the in-memory 'exists' set before writing it; if the write (or create_dir) fails, a later identical block in the same run is 'deduplicated' against a block that was never written",
   needs="a storage fault on a data block's create_dir/write AND a later block with byte-identical content in the same backup (two identical files above the small-file cap)",
   demo_features="verif_hooks", caught_by={"C04 quick": "recorded-content:dangling-or-short-reference@create_dir:blockdir / write:block"}, missed_by=["C04 quick before strengthening", "C14 quick"],
   strengthened="fault scenarios now always contain two files with identical multi-block content (/zdup1, /zdup2)"),
 "C05": dict(breaks="C05", file="src/archive.rs",
   what="delete_bands removes the unreferenced blocks before the band directories of the versions being deleted",
   needs="a real delete of a version that owns blocks no kept version references, killed after the first block removal and before the last remove_dir_all",
   demo_features="verif_hooks", caught_by={"C05 quick": "killed-delete:still-listed-band-to-be-deleted-has-dangling-reference"}, missed_by=["C05 quick before strengthening"],
   strengthened="after a killed or failed delete, versions that were to be deleted but are still listed as complete must restore too (they are 'remaining' versions)"),
 "C06": dict(breaks="C06", file="src/gc_lock.rs",
   what="GarbageCollectionLock::new re-reads last_band_id after writing GC_LOCK and remembers that id; a band created by a backup between gc's lock test and its lock write is then compared with itself by check()",
   needs="a garbage block whose content reappears in the new source, and the 2-preemption interleaving: gc up to just before Write GC_LOCK; backup through create band, second lock look and block listing; gc to its end; backup to its end",
   demo_features="verif_hooks", caught_by={"C06 quick": "gc-backup-race:new-version-lost-blocks:lockcheck-before-lock=Some(true),gc-check-before-band=Some(false)"}, missed_by=[], strengthened=None),
 "C07": dict(breaks="C07", file="src/blockdir.rs",
   what="when the CreateNew write of a block fails, store_or_deduplicate now removes the file ('don't leave a partly written block behind'); on AlreadyExists that deletes the other backup's complete block",
   needs="two concurrent backups whose sources share a whole block, both past their block listing with different band ids before either writes the shared block",
   demo_features="verif_hooks", caught_by={"C07 quick": "race:backup-issued-remove_file:block"}, missed_by=[], strengthened=None),
 "C08": dict(breaks="C08", file="src/index/stitch.rs",
   what="Stitch sets last_apath only when an entry passes the subtree/exclude filter, instead of from every hunk read, so the older band is resumed too early under a filter",
   needs="an incomplete version listed through a subtree or exclusion filter whose index ends with filtered-out entries, and an older version with a path in that gap",
   demo_features="", caught_by={"C08 quick": "subtree-listing-differs-from-filtered-rule / excluded-listing-differs-from-filtered-rule"}, missed_by=["C12 quick", "C15 quick (complete versions only)"], strengthened=None),
 "C09": dict(breaks="C09", file="src/validate.rs",
   what="validate_bands skips the stored-tree walk for tail-less bands, so blocks referenced only by an interrupted version are never checked",
   needs="an interrupted backup with >=1 hunk that references a block no other band references, and that block deleted or emptied",
   demo_features="verif_hooks", caught_by={"C09 quick": "validate-silent-on-harmful-damage:delete:block / truncate0:block"}, missed_by=["C09 quick before strengthening"],
   strengthened="harm is now judged for interrupted versions (with header) too, against their own pre-damage restore; only the vanished/emptied last hunk of an interrupted band is exempt"),
 "C10": dict(breaks="C10", file="src/blockdir.rs",
   what="get_block_content puts the decompressed bytes into the cache before checking the hash; later references to the same corrupt block in one restore are served from the cache without any error",
   needs="a block damaged so that it still decompresses (bit flip in a literal), referenced by more than one file in one restore (combined block), with the damage inside a later file's range",
   demo_features="", caught_by={"C10 quick": "damaged-entry-silently-dropped-or-altered@bitflip:block", "C10 thorough": "same"}, missed_by=["C10 quick before strengthening (caught by thorough)"],
   strengthened="per-file error attribution for entries that depend on a damaged block (a restore-level error no longer excuses a silently altered file); subjects always hold a combined block of 4 small files; 6 bit flips per block"),
 "C11": dict(breaks="C11", file="src/apath.rs",
   what="a 'fast path' in Apath::cmp compares the directory parts as whole strings when they differ, letting the '/' separator take part in the comparison",
   needs="sibling directories D and D<suffix> where the suffix starts with a byte below '/', D having a populated subdirectory (a/c/f next to a-b/g)",
   demo_features="", caught_by={"C11 quick": "apath-cmp-vs-documented-order"}, missed_by=["C01 quick", "C13 quick"], strengthened=None),
 "C12": dict(breaks="C12 (also C08)", file="src/apath.rs",
   what="is_prefix_of tests chars().nth(byte_len) instead of the byte at that offset",
   needs="a selected subtree whose own path contains a multi-byte character",
   demo_features="", caught_by={"C12 quick": "subtree-listing-differs:non-ascii-subtree", "C08 quick": "subtree-listing-differs-from-filtered-rule"}, missed_by=[], strengthened=None),
 "C13": dict(breaks="C13 (also C01, C04)", file="src/backup.rs",
   what="FileCombiner::push_file pushes the new file's queue entry after the 'buffer full, flush' check instead of before it: the file's bytes go into the block just written, its entry (with the stale offset) into the next one",
   needs="the small files of one hunk must together reach max_block_size while small_file_cap < max_block_size (with defaults: > 20 MB of sub-1 MB files in one hunk)",
   demo_features="", caught_by={"C13 quick": "format:address-outside-block", "C01 quick": "restore-reported-errors", "C04 quick": "recorded-content:entry-resolves-to-wrong-bytes / dangling-or-short-reference"}, missed_by=[], strengthened=None),
 "C14": dict(breaks="C14", file="src/index/stitch.rs",
   what="when the band about to be read cannot be opened, Stitch ends the listing instead of moving on to the previous existing band; after a kill that left a head-less newest band the next backup has an empty basis",
   needs="a backup killed between create_dir(bN) and the end of the BANDHEAD write, that head-less band being the newest when the next backup of the unchanged tree starts, and a history that is not a single full backup",
   demo_features="verif_hooks", caught_by={"C14 quick": "unchanged-tree-wrote-blocks-after-interruption"}, missed_by=["C14 quick before strengthening", "C03 quick", "C02 quick"],
   strengthened="new clause: for a tree unchanged since the last complete version, a backup killed at EVERY point followed by another backup must write no block and record that version's addresses"),
 "C17": dict(breaks="C17 (also C02)", file="src/gc_lock.rs",
   what="GarbageCollectionLock::new writes GC_LOCK before it tests whether the newest band is incomplete; a refused gc/delete then relies on the detached task spawned from Drop to remove the lock, which depends on scheduling",
   needs="an interrupted backup (head, no tail), then a gc or delete that is (correctly) refused, and a scheduling in which the detached removal has not run",
   demo_features="verif_hooks", caught_by={"C17 quick": "replay-differs:GC_LOCK", "C02 quick": "refused-delete-changed-archive"}, missed_by=["C17 quick before the harness stopped waiting for detached tasks", "C05 quick"],
   strengthened="delete/gc now run on a runtime that is dropped when the call returns (process-exit semantics) and nothing waits for tasks spawned from Drop; this also exposed a genuine defect on the unchanged tree (stale GC_LOCK after a failed gc, fixed)"),
 "C15": dict(breaks="C15 (also C08)", file="src/excludes.rs",
   what="add_pattern no longer adds the 'PATTERN/**' glob when the pattern ends in '*', so list and restore keep the children of an excluded directory",
   needs="a pattern ending in '*' that matches a directory with children, applied at list or restore time",
   demo_features="", caught_by={"C15 quick": "list-with-excludes-differs-from-rule:kept-too-much / restore-with-excludes-reported-errors", "C08 quick": "excluded-listing-differs-from-filtered-rule"}, missed_by=[], strengthened=None),
 "C16": dict(breaks="C16", file="src/restore.rs",
   what="the ancestor walk of the 'below a restored symlink' guard assigns instead of or-ing, so only the top-level ancestor is remembered",
   needs="a stitched version in which a directory two or more levels down became a symlink to an existing directory outside the destination",
   demo_features="", caught_by={"C16 quick": "restore-modified-outside-destination:stitched-entry-below-symlink"}, missed_by=["C16 quick before strengthening"],
   strengthened="the directory that becomes a symlink now sits at depth 0, 1 or 2 (case % 3)"),
 "C18": dict(breaks="C18", file="src/backup.rs",
   what="copy_file only considers a basis entry that was itself a file, and content_heuristically_unchanged drops its kind comparison: a dir/symlink that became a file is reported as added by the backup callback while diff says changed",
   needs="a kind swap from directory or symlink into a regular file, then a backup whose change callback is compared with diff",
   demo_features="", caught_by={"C18 quick": "backup-callback-added-files-differ-from-diff"}, missed_by=[], strengthened=None),
}


def main():
    for sid, m in SEEDS.items():
        d = os.path.join(HERE, "seeded", sid)
        if not os.path.isdir(d):
            print("missing", d)
            continue
        meta = {
            "seed": sid,
            "property_broken": m["breaks"],
            "changed_file": m["file"],
            "what_the_change_is": m["what"],
            "needs_to_manifest": m["needs"],
            "demonstration": "demo.rs (copy to tests/, run: cargo test --offline %s--test demo)" % (("--features %s " % m["demo_features"]) if m["demo_features"] else ""),
            "confirmed": {
                "compiles": True,
                "pinned_baseline_passes_with_change": True,
                "demo_passes_without_change": True,
                "demo_fails_with_change": True,
            },
            "what_was_run": COMMON_RAN,
            "caught_by": m["caught_by"],
            "not_caught_by": m["missed_by"],
            "check_strengthened_because_of_it": m["strengthened"],
            "origin": "written by a fresh sub-agent that saw only the property text and its own scratch worktree of /repo",
        }
        json.dump(meta, open(os.path.join(d, "meta.json"), "w"), indent=1, ensure_ascii=False)
        print("wrote", sid)


if __name__ == "__main__":
    main()
