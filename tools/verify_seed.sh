#!/bin/bash
# usage: tools/verify_seed.sh <seed-dir with patch.diff and demo.rs|demo.sh> [cargo test extra args, e.g. --features verif_hooks]
# In a scratch worktree of /repo's HEAD: (1) demo passes without the patch, (2) patch applies and builds,
# (3) pinned baseline still passes with the patch, (4) demo fails with the patch.
set -u
S=$(readlink -f "$1"); shift
EXTRA="$@"
W=$(mktemp -d /tmp/vseed-XXXXXX)
trap 'git -C /repo worktree remove --force "$W/repo" >/dev/null 2>&1; rm -rf "$W"' EXIT
git -C /repo worktree add --detach "$W/repo" HEAD >/dev/null 2>&1 || exit 2
cp -r /repo/target "$W/repo/target"
cd "$W/repo"
run_demo() {
  if [ -f "$S/demo.rs" ]; then
    cp "$S/demo.rs" tests/zz_seed_demo.rs
    CARGO_NET_OFFLINE=true cargo test --offline $EXTRA --test zz_seed_demo >"$W/demo.log" 2>&1; rc=$?
    rm -f tests/zz_seed_demo.rs
  else
    CARGO_NET_OFFLINE=true cargo build --offline >/dev/null 2>&1
    bash "$S/demo.sh" "$W/repo" >"$W/demo.log" 2>&1; rc=$?
  fi
  return $rc
}
run_demo; echo "demo without patch: rc=$? ($(grep -E "^test result|passed|failed" "$W/demo.log" | tail -1))"
git apply "$S/patch.diff" || { echo "PATCH DOES NOT APPLY"; exit 2; }
git diff --stat | tail -1
/verif/tools/repo_tests.sh "$W/repo" | head -4
run_demo; echo "demo with patch: rc=$? ($(grep -E "^test result|passed|failed|panicked" "$W/demo.log" | tail -2 | tr '\n' ' '))"
