//! Small deterministic PRNG (xoshiro256**), seeded from (VERIF_SEED, case index, stream).

#[derive(Clone, Debug)]
pub struct Rng {
    s: [u64; 4],
}

fn splitmix(x: &mut u64) -> u64 {
    *x = x.wrapping_add(0x9E3779B97F4A7C15);
    let mut z = *x;
    z = (z ^ (z >> 30)).wrapping_mul(0xBF58476D1CE4E5B9);
    z = (z ^ (z >> 27)).wrapping_mul(0x94D049BB133111EB);
    z ^ (z >> 31)
}

impl Rng {
    pub fn new(seed: u64) -> Rng {
        let mut x = seed;
        let s = [
            splitmix(&mut x),
            splitmix(&mut x),
            splitmix(&mut x),
            splitmix(&mut x),
        ];
        Rng { s }
    }

    /// Derive a generator for (seed, case, stream).
    pub fn for_case(seed: u64, case: u64, stream: u64) -> Rng {
        let mut x = seed ^ 0xC0FFEE;
        let a = splitmix(&mut x);
        let mut y = a ^ case.wrapping_mul(0x2545F4914F6CDD1D);
        let b = splitmix(&mut y);
        let mut z = b ^ stream.wrapping_mul(0xD6E8FEB86659FD93);
        Rng::new(splitmix(&mut z))
    }

    pub fn next_u64(&mut self) -> u64 {
        let result = self.s[1].wrapping_mul(5).rotate_left(7).wrapping_mul(9);
        let t = self.s[1] << 17;
        self.s[2] ^= self.s[0];
        self.s[3] ^= self.s[1];
        self.s[1] ^= self.s[2];
        self.s[0] ^= self.s[3];
        self.s[2] ^= t;
        self.s[3] = self.s[3].rotate_left(45);
        result
    }

    /// Uniform in 0..n (n > 0).
    pub fn below(&mut self, n: u64) -> u64 {
        assert!(n > 0);
        self.next_u64() % n
    }

    pub fn range(&mut self, lo: u64, hi_incl: u64) -> u64 {
        lo + self.below(hi_incl - lo + 1)
    }

    pub fn chance(&mut self, num: u64, den: u64) -> bool {
        self.below(den) < num
    }

    pub fn f64(&mut self) -> f64 {
        (self.next_u64() >> 11) as f64 / (1u64 << 53) as f64
    }

    pub fn pick<'a, T>(&mut self, xs: &'a [T]) -> &'a T {
        &xs[self.below(xs.len() as u64) as usize]
    }

    pub fn shuffle<T>(&mut self, xs: &mut [T]) {
        for i in (1..xs.len()).rev() {
            let j = self.below(i as u64 + 1) as usize;
            xs.swap(i, j);
        }
    }

    pub fn bytes(&mut self, n: usize) -> Vec<u8> {
        let mut v = Vec::with_capacity(n);
        while v.len() < n {
            let x = self.next_u64().to_le_bytes();
            let take = (n - v.len()).min(8);
            v.extend_from_slice(&x[..take]);
        }
        v
    }
}

/// FNV-1a, for cheap signatures.
pub fn fnv(data: &[u8]) -> u64 {
    let mut h: u64 = 0xcbf29ce484222325;
    for b in data {
        h ^= *b as u64;
        h = h.wrapping_mul(0x100000001b3);
    }
    h
}
