//! E1: tree models, materialiser, independent lstat walker (Snapshot), generators, mutations.

use std::collections::BTreeMap;
use std::fs;
use std::io;
use std::os::unix::fs::{MetadataExt, PermissionsExt, lchown, symlink};
use std::path::{Path, PathBuf};
use std::sync::OnceLock;

use filetime::FileTime;

use crate::rng::{Rng, fnv};

#[derive(Clone, Copy, Debug, PartialEq, Eq, PartialOrd, Ord, Hash)]
pub enum Kind {
    File,
    Dir,
    Symlink,
}

#[derive(Clone, Debug, PartialEq, Eq)]
pub struct Node {
    pub kind: Kind,
    /// File bytes.
    pub content: Vec<u8>,
    /// Symlink target.
    pub target: String,
    pub mtime_s: i64,
    pub mtime_ns: u32,
    /// mode & 0o7777 (not meaningful for symlinks)
    pub mode: u32,
    pub uid: u32,
    pub gid: u32,
}

impl Node {
    pub fn file(content: Vec<u8>) -> Node {
        Node {
            kind: Kind::File,
            content,
            target: String::new(),
            mtime_s: 1_500_000_000,
            mtime_ns: 0,
            mode: 0o644,
            uid: 0,
            gid: 0,
        }
    }
    pub fn dir() -> Node {
        Node {
            kind: Kind::Dir,
            mode: 0o755,
            ..Node::file(Vec::new())
        }
    }
    pub fn symlink(target: &str) -> Node {
        Node {
            kind: Kind::Symlink,
            target: target.to_string(),
            mode: 0o777,
            ..Node::file(Vec::new())
        }
    }
}

/// Keys are apaths: "/" for the root, "/a/b" below it.
pub type Snapshot = BTreeMap<String, Node>;

pub fn below(root: &Path, apath: &str) -> PathBuf {
    if apath == "/" {
        root.to_path_buf()
    } else {
        root.join(&apath[1..])
    }
}

pub fn parent_of(apath: &str) -> &str {
    match apath.rfind('/') {
        Some(0) | None => "/",
        Some(i) => &apath[..i],
    }
}

pub fn child_of(dir: &str, name: &str) -> String {
    if dir == "/" {
        format!("/{name}")
    } else {
        format!("{dir}/{name}")
    }
}

pub fn is_under(apath: &str, dir: &str) -> bool {
    dir == "/" || apath == dir || (apath.starts_with(dir) && apath.as_bytes()[dir.len()] == b'/')
}

pub fn is_root() -> bool {
    // SAFETY-free: read from /proc
    static R: OnceLock<bool> = OnceLock::new();
    *R.get_or_init(|| {
        fs::metadata("/proc/self")
            .map(|m| m.uid() == 0)
            .unwrap_or(false)
    })
}

/// (uids with a passwd name, gids with a group name), excluding nothing.
pub fn named_ids() -> &'static (Vec<u32>, Vec<u32>) {
    static R: OnceLock<(Vec<u32>, Vec<u32>)> = OnceLock::new();
    R.get_or_init(|| {
        let parse = |p: &str| -> Vec<u32> {
            let mut seen_names = std::collections::HashSet::new();
            let mut seen_ids = std::collections::HashSet::new();
            let mut v = Vec::new();
            for l in fs::read_to_string(p).unwrap_or_default().lines() {
                let f: Vec<&str> = l.split(':').collect();
                if f.len() > 2 {
                    if let Ok(id) = f[2].parse::<u32>() {
                        // only ids whose name<->id mapping is one-to-one, so that the
                        // name stored in the archive maps back to the same id
                        if seen_names.insert(f[0].to_string()) && seen_ids.insert(id) {
                            v.push(id);
                        }
                    }
                }
            }
            v
        };
        (parse("/etc/passwd"), parse("/etc/group"))
    })
}

/// Independent walker: lstat / readlink / read of everything below `root`.
pub fn snapshot(root: &Path) -> io::Result<Snapshot> {
    let mut out = Snapshot::new();
    fn node_of(path: &Path, md: &fs::Metadata) -> io::Result<Node> {
        let ft = md.file_type();
        let (kind, content, target) = if ft.is_dir() {
            (Kind::Dir, Vec::new(), String::new())
        } else if ft.is_symlink() {
            let t = fs::read_link(path)?;
            (
                Kind::Symlink,
                Vec::new(),
                t.to_string_lossy().into_owned(),
            )
        } else {
            (Kind::File, fs::read(path)?, String::new())
        };
        Ok(Node {
            kind,
            content,
            target,
            mtime_s: md.mtime(),
            mtime_ns: md.mtime_nsec() as u32,
            mode: md.mode() & 0o7777,
            uid: md.uid(),
            gid: md.gid(),
        })
    }
    fn walk(out: &mut Snapshot, path: &Path, apath: &str) -> io::Result<()> {
        let md = fs::symlink_metadata(path)?;
        let ft = md.file_type();
        if !(ft.is_dir() || ft.is_symlink() || ft.is_file()) {
            // fifos, sockets, device nodes: not part of what a backup holds (and not to be read)
            return Ok(());
        }
        let node = node_of(path, &md)?;
        let is_dir = node.kind == Kind::Dir;
        out.insert(apath.to_string(), node);
        if is_dir {
            for e in fs::read_dir(path)? {
                let e = e?;
                let name = e.file_name().to_string_lossy().into_owned();
                walk(out, &e.path(), &child_of(apath, &name))?;
            }
        }
        Ok(())
    }
    walk(&mut out, root, "/")?;
    Ok(out)
}

fn apply_meta(root: &Path, apath: &str, n: &Node) -> io::Result<()> {
    let p = below(root, apath);
    // owner -> mode -> times: chown clears setuid/setgid even for root.
    if is_root() {
        lchown(&p, Some(n.uid), Some(n.gid))?;
    }
    let ft = FileTime::from_unix_time(n.mtime_s, n.mtime_ns);
    if n.kind == Kind::Symlink {
        filetime::set_symlink_file_times(&p, ft, ft)?;
    } else {
        fs::set_permissions(&p, fs::Permissions::from_mode(n.mode))?;
        filetime::set_file_times(&p, ft, ft)?;
    }
    Ok(())
}

fn remove_any(p: &Path) -> io::Result<()> {
    match fs::symlink_metadata(p) {
        Err(e) if e.kind() == io::ErrorKind::NotFound => Ok(()),
        Err(e) => Err(e),
        Ok(md) if md.file_type().is_dir() => fs::remove_dir_all(p),
        Ok(_) => fs::remove_file(p),
    }
}

/// Bring the directory `root` from state `old` (what we last wrote) to `new`.
pub fn sync_to_disk(old: Option<&Snapshot>, new: &Snapshot, root: &Path) -> io::Result<()> {
    if let Some(old) = old {
        for (ap, on) in old.iter().rev() {
            let gone = match new.get(ap) {
                None => true,
                Some(nn) => {
                    nn.kind != on.kind
                        || (nn.kind == Kind::File && nn.content != on.content)
                        || (nn.kind == Kind::Symlink && nn.target != on.target)
                }
            };
            if gone && ap != "/" {
                remove_any(&below(root, ap))?;
            }
        }
    }
    for (ap, n) in new.iter() {
        let p = below(root, ap);
        if fs::symlink_metadata(&p).is_ok() {
            continue;
        }
        match n.kind {
            Kind::Dir => fs::create_dir_all(&p)?,
            Kind::File => fs::write(&p, &n.content)?,
            Kind::Symlink => symlink(&n.target, &p)?,
        }
    }
    for (ap, n) in new.iter().rev() {
        apply_meta(root, ap, n)?;
    }
    Ok(())
}

/// What differs between an expected and an actual snapshot.
pub struct CmpOpts {
    pub owner: bool,
    pub dir_mtime: bool,
    pub root_meta: bool,
}

impl Default for CmpOpts {
    fn default() -> Self {
        CmpOpts {
            owner: is_root(),
            dir_mtime: true,
            root_meta: true,
        }
    }
}

pub fn describe(n: &Node) -> String {
    match n.kind {
        Kind::File => format!(
            "file len={} h={:x} mtime={}.{:09} mode={:o} {}:{}",
            n.content.len(),
            fnv(&n.content),
            n.mtime_s,
            n.mtime_ns,
            n.mode,
            n.uid,
            n.gid
        ),
        Kind::Dir => format!(
            "dir mtime={}.{:09} mode={:o} {}:{}",
            n.mtime_s, n.mtime_ns, n.mode, n.uid, n.gid
        ),
        Kind::Symlink => format!(
            "symlink -> {:?} mtime={}.{:09} {}:{}",
            n.target, n.mtime_s, n.mtime_ns, n.uid, n.gid
        ),
    }
}

/// Differences, each tagged with a class used in violation signatures.
pub fn diff_snapshots(expected: &Snapshot, actual: &Snapshot, o: &CmpOpts) -> Vec<(String, String)> {
    let mut d = Vec::new();
    for (ap, e) in expected {
        match actual.get(ap) {
            None => d.push(("missing".to_string(), format!("{ap}: missing, expected {}", describe(e)))),
            Some(a) => {
                let mut push = |class: &str| {
                    d.push((
                        class.to_string(),
                        format!("{ap}: expected {} got {}", describe(e), describe(a)),
                    ))
                };
                if a.kind != e.kind {
                    push("kind");
                    continue;
                }
                if e.kind == Kind::File && a.content != e.content {
                    push("content");
                }
                if e.kind == Kind::Symlink && a.target != e.target {
                    push("target");
                }
                let meta = ap != "/" || o.root_meta;
                if meta {
                    if (e.kind != Kind::Dir || o.dir_mtime)
                        && (a.mtime_s, a.mtime_ns) != (e.mtime_s, e.mtime_ns)
                    {
                        push("mtime");
                    }
                    if e.kind != Kind::Symlink && a.mode != e.mode {
                        push("mode");
                    }
                    if o.owner && (a.uid, a.gid) != (e.uid, e.gid) {
                        push("owner");
                    }
                }
            }
        }
    }
    for (ap, a) in actual {
        if !expected.contains_key(ap) {
            d.push(("extra".to_string(), format!("{ap}: unexpected {}", describe(a))));
        }
    }
    d
}

// ---------------------------------------------------------------------------
// Generation

pub const NAMES: &[&str] = &[
    "a", "ab", "a.b", "a b", "a-", "a!", "a+x", ".a", ".hid", "-x", " lead", "+p", "~t", "{z",
    "é", "éa", "é.b", "日本", "日", "ñ", "b", "c", "Z", "0", "a~", "aé",
    // quote and backslash need escaping in the JSON of an index hunk
    "q\"t", "b\\s",
];
pub const CTRL_NAMES: &[&str] = &["n\nl", "t\tb", "\u{1}x"];

pub const MTIME_SECS: &[i64] = &[
    -2147483648,
    -31536000,
    -86400,
    -2,
    -1,
    0,
    1,
    1_000_000_000,
    1_700_000_000,
    2147483647,
    2147483648,
    8589934592,
    // beyond +-292 years from the epoch a nanosecond count no longer fits in 64 bits
    9_300_000_000,
    -9_300_000_000,
    20_000_000_000,
    -30_000_000_000,
    // near the ends of what a calendar with four-digit years can hold
    253_000_000_000,
    -62_000_000_000,
];
pub const MTIME_NANOS: &[u32] = &[0, 1, 500_000_000, 999_999_999];

#[derive(Clone, Debug)]
pub struct GenParams {
    pub block: usize,
    pub cap: u64,
    pub target_entries: usize,
    pub max_depth: usize,
    pub ctrl_names: bool,
    pub hostile_mtimes: bool,
    pub hostile_modes: bool,
    pub owners: bool,
    /// Largest file size to generate when the block size is huge.
    pub max_plain_size: usize,
    /// Histories may start at band b99998 (else at most b9998). With a first version that high
    /// and later deleted, every listing of an interrupted version walks down a hundred thousand
    /// band numbers: only the check that is about the numbering (C02) pays for that.
    pub band_numbers_to_99998: bool,
}

impl GenParams {
    pub fn small(block: usize, cap: u64) -> GenParams {
        GenParams {
            block,
            cap,
            target_entries: 10,
            max_depth: 3,
            ctrl_names: false,
            hostile_mtimes: true,
            hostile_modes: true,
            owners: true,
            max_plain_size: 65536,
            band_numbers_to_99998: false,
        }
    }
}

/// Logical clock handing out strictly increasing mtimes.
#[derive(Clone, Debug)]
pub struct Clock {
    pub s: i64,
    pub ns: u32,
}

impl Clock {
    pub fn new() -> Clock {
        Clock {
            s: 1_600_000_000,
            ns: 0,
        }
    }
    pub fn next(&mut self, rng: &mut Rng) -> (i64, u32) {
        // sometimes advance by only a nanosecond, sometimes by seconds
        if rng.chance(1, 3) {
            self.ns += 1 + rng.below(1000) as u32;
        } else {
            self.s += 1 + rng.below(100) as i64;
            self.ns = *rng.pick(&[0u32, 1, 500_000_000, 999_999_000]) + rng.below(2) as u32;
        }
        if self.ns >= 1_000_000_000 {
            self.s += 1;
            self.ns -= 1_000_000_000;
        }
        (self.s, self.ns)
    }
}

pub fn size_classes(p: &GenParams) -> Vec<usize> {
    let mut v: Vec<usize> = vec![0, 1, 2, 5];
    let cap = p.cap as usize;
    for s in [cap.saturating_sub(1), cap, cap + 1] {
        v.push(s);
    }
    let b = p.block;
    for s in [b.saturating_sub(1), b, b + 1, 2 * b, 2 * b + 1, 3 * b + 7] {
        v.push(s);
    }
    v.retain(|s| *s <= p.max_plain_size);
    v.sort();
    v.dedup();
    v
}

pub fn gen_content(rng: &mut Rng, len: usize) -> Vec<u8> {
    match rng.below(3) {
        0 => rng.bytes(len),
        1 => {
            // compressible
            let pl = 1 + rng.below(7) as usize;
            let pat = rng.bytes(pl);
            (0..len).map(|i| pat[i % pat.len()]).collect()
        }
        _ => {
            let tag = rng.next_u64();
            let mut v = Vec::with_capacity(len);
            let mut i = 0u64;
            while v.len() < len {
                let s = format!("{tag:x}:{i};");
                let take = (len - v.len()).min(s.len());
                v.extend_from_slice(&s.as_bytes()[..take]);
                i += 1;
            }
            v
        }
    }
}

pub struct GenState {
    pub mode_cursor: u32,
}

fn gen_meta(rng: &mut Rng, p: &GenParams, st: &mut GenState, n: &mut Node) {
    if p.hostile_mtimes && rng.chance(2, 3) {
        n.mtime_s = *rng.pick(MTIME_SECS);
        n.mtime_ns = if rng.chance(1, 4) {
            rng.below(1_000_000_000) as u32
        } else {
            *rng.pick(MTIME_NANOS)
        };
    } else {
        n.mtime_s = 1_400_000_000 + rng.below(100_000_000) as i64;
        n.mtime_ns = if rng.chance(1, 2) { 0 } else { rng.below(1_000_000_000) as u32 };
    }
    match n.kind {
        Kind::File => {
            if p.hostile_modes {
                n.mode = st.mode_cursor & 0o7777;
                st.mode_cursor = st.mode_cursor.wrapping_add(1);
            } else {
                n.mode = *rng.pick(&[0o644, 0o600, 0o755, 0o444]);
            }
        }
        Kind::Dir => {
            n.mode = if p.hostile_modes {
                *rng.pick(&[0o755, 0o777, 0o700, 0o2755, 0o1777, 0o3775, 0o555, 0o750, 0o4711, 0o7777])
            } else {
                0o755
            };
        }
        Kind::Symlink => n.mode = 0o777,
    }
    if p.owners && is_root() {
        let (u, g) = named_ids();
        if rng.chance(1, 2) && !u.is_empty() && !g.is_empty() {
            n.uid = *rng.pick(u);
            n.gid = *rng.pick(g);
        }
    }
}

/// Generate a tree. Deterministic in rng.
pub fn gen_tree(rng: &mut Rng, p: &GenParams, st: &mut GenState) -> Snapshot {
    let mut t = Snapshot::new();
    let mut root = Node::dir();
    gen_meta(rng, p, st, &mut root);
    t.insert("/".into(), root);
    let mut dirs: Vec<String> = vec!["/".into()];
    let sizes = size_classes(p);
    let mut contents: Vec<Vec<u8>> = Vec::new();
    let mut size_i = rng.below(sizes.len() as u64) as usize;
    let mut attempts = 0;
    while t.len() < p.target_entries + 1 && attempts < p.target_entries * 10 {
        attempts += 1;
        let dir = rng.pick(&dirs).clone();
        let depth = dir.matches('/').count() - if dir == "/" { 1 } else { 0 };
        let name = if p.ctrl_names && rng.chance(1, 8) {
            *rng.pick(CTRL_NAMES)
        } else {
            *rng.pick(NAMES)
        };
        let ap = child_of(&dir, name);
        if t.contains_key(&ap) {
            continue;
        }
        let roll = rng.below(10);
        let mut node = if roll < 2 && depth < p.max_depth {
            dirs.push(ap.clone());
            Node::dir()
        } else if roll < 4 {
            let target = match rng.below(6) {
                0 => "nonexistent-target".to_string(),
                1 => "/absolute/nowhere".to_string(),
                2 => "..".to_string(),
                3 => ".".to_string(),
                4 => rng.pick(&dirs).trim_start_matches('/').to_string() + "x",
                _ => "../é/日本".to_string(),
            };
            Node::symlink(&target)
        } else {
            let content = if !contents.is_empty() && rng.chance(1, 6) {
                // whole-file duplicate or a prefix of another file
                let c = rng.pick(&contents).clone();
                if rng.chance(1, 2) || c.len() < 2 {
                    c
                } else {
                    c[..1 + rng.below(c.len() as u64 - 1) as usize].to_vec()
                }
            } else {
                size_i = (size_i + 1) % sizes.len();
                let len = if rng.chance(1, 5) {
                    rng.below(p.max_plain_size.min(3 * p.block + 9).max(2) as u64) as usize
                } else {
                    sizes[size_i]
                };
                gen_content(rng, len)
            };
            contents.push(content.clone());
            Node::file(content)
        };
        gen_meta(rng, p, st, &mut node);
        t.insert(ap, node);
    }
    t
}

// ---------------------------------------------------------------------------
// Mutations on a tree model

fn paths_of(t: &Snapshot, k: Kind) -> Vec<String> {
    t.iter()
        .filter(|(p, n)| n.kind == k && p.as_str() != "/")
        .map(|(p, _)| p.clone())
        .collect()
}

fn dirs_of(t: &Snapshot) -> Vec<String> {
    t.iter()
        .filter(|(_, n)| n.kind == Kind::Dir)
        .map(|(p, _)| p.clone())
        .collect()
}

fn remove_subtree(t: &mut Snapshot, ap: &str) -> Vec<(String, Node)> {
    let keys: Vec<String> = t.keys().filter(|k| is_under(k, ap)).cloned().collect();
    keys.into_iter().map(|k| {
        let n = t.remove(&k).unwrap();
        (k, n)
    }).collect()
}

fn fresh_name(rng: &mut Rng, t: &Snapshot, dir: &str) -> Option<String> {
    for _ in 0..20 {
        let ap = child_of(dir, *rng.pick(NAMES));
        if !t.contains_key(&ap) {
            return Some(ap);
        }
    }
    None
}

/// Apply one random mutation; returns a description. `graveyard` keeps contents of
/// removed/overwritten files so they can reappear (dedup against garbage).
pub fn mutate(
    rng: &mut Rng,
    t: &mut Snapshot,
    clock: &mut Clock,
    p: &GenParams,
    st: &mut GenState,
    graveyard: &mut Vec<Vec<u8>>,
) -> String {
    let sizes = size_classes(p);
    for _ in 0..30 {
        let files = paths_of(t, Kind::File);
        let links = paths_of(t, Kind::Symlink);
        let dirs = dirs_of(t);
        match rng.below(14) {
            0 | 1 => {
                let dir = rng.pick(&dirs).clone();
                let Some(ap) = fresh_name(rng, t, &dir) else { continue };
                let content = if !graveyard.is_empty() && rng.chance(1, 3) {
                    rng.pick(graveyard).clone()
                } else {
                    { let sz = *rng.pick(&sizes); gen_content(rng, sz) }
                };
                let mut n = Node::file(content);
                gen_meta(rng, p, st, &mut n);
                (n.mtime_s, n.mtime_ns) = clock.next(rng);
                let d = format!("add file {ap} len={}", n.content.len());
                t.insert(ap, n);
                return d;
            }
            2 | 3 => {
                if files.is_empty() { continue }
                let ap = rng.pick(&files).clone();
                let n = t.get_mut(&ap).unwrap();
                graveyard.push(n.content.clone());
                let newlen = if rng.chance(1, 2) { n.content.len() } else { *rng.pick(&sizes) };
                let mut c = gen_content(rng, newlen);
                if c == n.content && !c.is_empty() {
                    c[0] ^= 1;
                }
                n.content = c;
                (n.mtime_s, n.mtime_ns) = clock.next(rng);
                return format!("modify {ap} len={newlen}");
            }
            4 => {
                if files.is_empty() { continue }
                let ap = rng.pick(&files).clone();
                let n = t.get_mut(&ap).unwrap();
                (n.mtime_s, n.mtime_ns) = clock.next(rng);
                return format!("touch {ap}");
            }
            5 => {
                let mut cands = files.clone();
                cands.extend(dirs.iter().filter(|d| d.as_str() != "/").cloned());
                if cands.is_empty() { continue }
                let ap = rng.pick(&cands).clone();
                let n = t.get_mut(&ap).unwrap();
                let newmode = (n.mode ^ (1 << rng.below(12))) & 0o7777;
                n.mode = newmode;
                return format!("chmod {ap} {newmode:o}");
            }
            6 => {
                let mut cands = files.clone();
                cands.extend(links.iter().cloned());
                cands.extend(dirs.iter().filter(|d| d.as_str() != "/").cloned());
                if cands.is_empty() { continue }
                let ap = rng.pick(&cands).clone();
                for (_, n) in remove_subtree(t, &ap) {
                    if n.kind == Kind::File {
                        graveyard.push(n.content);
                    }
                }
                return format!("remove {ap}");
            }
            7 => {
                let mut cands = files.clone();
                cands.extend(dirs.iter().filter(|d| d.as_str() != "/").cloned());
                if cands.is_empty() { continue }
                let from = rng.pick(&cands).clone();
                let ok_dirs: Vec<&String> = dirs.iter().filter(|d| !is_under(d, &from)).collect();
                if ok_dirs.is_empty() { continue }
                let dir = (*rng.pick(&ok_dirs)).clone();
                let Some(to) = fresh_name(rng, t, &dir) else { continue };
                let moved = remove_subtree(t, &from);
                for (k, n) in moved {
                    let nk = format!("{to}{}", &k[from.len()..]);
                    t.insert(nk, n);
                }
                return format!("rename {from} -> {to}");
            }
            8 => {
                // file -> dir with a child
                if files.is_empty() { continue }
                let ap = rng.pick(&files).clone();
                let old = t.remove(&ap).unwrap();
                graveyard.push(old.content);
                let mut d = Node::dir();
                gen_meta(rng, p, st, &mut d);
                t.insert(ap.clone(), d);
                let mut c = Node::file({ let sz = *rng.pick(&sizes); gen_content(rng, sz) });
                gen_meta(rng, p, st, &mut c);
                (c.mtime_s, c.mtime_ns) = clock.next(rng);
                t.insert(child_of(&ap, *rng.pick(NAMES)), c);
                return format!("file->dir {ap}");
            }
            9 => {
                // dir -> file
                let cands: Vec<&String> = dirs.iter().filter(|d| d.as_str() != "/").collect();
                if cands.is_empty() { continue }
                let ap = (*rng.pick(&cands)).clone();
                for (_, n) in remove_subtree(t, &ap) {
                    if n.kind == Kind::File {
                        graveyard.push(n.content);
                    }
                }
                let mut n = Node::file({ let sz = *rng.pick(&sizes); gen_content(rng, sz) });
                gen_meta(rng, p, st, &mut n);
                (n.mtime_s, n.mtime_ns) = clock.next(rng);
                t.insert(ap.clone(), n);
                return format!("dir->file {ap}");
            }
            10 => {
                let dir = rng.pick(&dirs).clone();
                let Some(ap) = fresh_name(rng, t, &dir) else { continue };
                let mut n = Node::symlink(*rng.pick(&["x", "../y", "/abs", "é"]));
                gen_meta(rng, p, st, &mut n);
                t.insert(ap.clone(), n);
                return format!("add symlink {ap}");
            }
            11 => {
                if links.is_empty() { continue }
                let ap = rng.pick(&links).clone();
                let n = t.get_mut(&ap).unwrap();
                n.target = format!("{}~", n.target);
                return format!("retarget {ap}");
            }
            12 => {
                let dir = rng.pick(&dirs).clone();
                let Some(ap) = fresh_name(rng, t, &dir) else { continue };
                let mut n = Node::dir();
                gen_meta(rng, p, st, &mut n);
                t.insert(ap.clone(), n);
                return format!("mkdir {ap}");
            }
            _ => {
                // move a file across the small-file cap
                if files.is_empty() { continue }
                let ap = rng.pick(&files).clone();
                let n = t.get_mut(&ap).unwrap();
                graveyard.push(n.content.clone());
                let cap = p.cap as usize;
                let newlen = if n.content.len() <= cap { cap + 1 + rng.below(4) as usize } else { cap.saturating_sub(rng.below(2) as usize) };
                n.content = gen_content(rng, newlen.min(p.max_plain_size));
                (n.mtime_s, n.mtime_ns) = clock.next(rng);
                return format!("resize across cap {ap} len={newlen}");
            }
        }
    }
    "noop".into()
}

/// Short structural signature of a tree (for distinct-case counting).
pub fn tree_sig(t: &Snapshot) -> u64 {
    let mut s = String::new();
    for (p, n) in t {
        s.push_str(p);
        s.push_str(&format!("|{:?}|{}|{:o}|{}|{};", n.kind, n.content.len(), n.mode, n.mtime_s, n.mtime_ns));
    }
    fnv(s.as_bytes())
}

/// Scale and unusual names: add a wide directory (150-500 files, every 7th just above the
/// block size, 40 subdirectories, names of 250 bytes and other awkward ones) and a chain of
/// 30 nested directories to a tree.
pub fn add_wide_and_deep(spec: &mut Snapshot, rng: &mut Rng, block: usize, max_plain_size: usize) {
    let wide = "/wide";
    spec.insert(wide.into(), Node::dir());
    let n_files = 150 + rng.below(350) as usize;
    for i in 0..n_files {
        let len = if i % 7 == 0 { block.min(300) + 1 } else { rng.below(12) as usize };
        let mut n = Node::file(gen_content(rng, len.min(max_plain_size)));
        n.mtime_s = 1_500_000_000 + i as i64;
        n.mode = 0o600 + (i as u32 % 0o100);
        spec.insert(format!("{wide}/f{i:04}"), n);
    }
    for i in 0..40 {
        spec.insert(format!("{wide}/d{i:02}"), Node::dir());
        spec.insert(format!("{wide}/d{i:02}/x"), Node::file(gen_content(rng, i)));
    }
    // files merely NAMED like a cache-directory tag (empty, wrong signature, signature not at
    // the start): by the cachedir specification these directories are ordinary data
    for (i, content) in [&b""[..], &b"Signature: 8a477f597d28d172789f06886806bc54"[..], &b"# Signature: 8a477f597d28d172789f06886806bc55\n"[..]].iter().enumerate() {
        spec.insert(format!("{wide}/d{i:02}/CACHEDIR.TAG"), Node::file(content.to_vec()));
    }
    let long_ascii = "L".repeat(250);
    let long_multi = "é".repeat(125);
    for name in [long_ascii.as_str(), long_multi.as_str(), "a\\b", "trailing.", "trailing ", "CON", "~", "-", "..."] {
        spec.insert(format!("{wide}/{name}"), Node::file(gen_content(rng, 3)));
    }
    add_longest_names(spec, rng, wide);
    let mut deep = String::from("/deep");
    spec.insert(deep.clone(), Node::dir());
    for i in 0..30 {
        deep = format!("{deep}/n{i}");
        spec.insert(deep.clone(), Node::dir());
    }
    spec.insert(format!("{deep}/bottom"), Node::file(gen_content(rng, 10)));
}

/// Names of exactly 255 bytes, the longest a Linux file system takes: a file with an ASCII name,
/// a file whose name is 85 three-byte characters, and a directory with a file inside.
pub fn add_longest_names(spec: &mut Snapshot, rng: &mut Rng, dir_apath: &str) {
    let ascii = "M".repeat(255);
    let multi = "\u{20ac}".repeat(85);
    let dname = format!("d{}", "N".repeat(254));
    spec.insert(child_of(dir_apath, &ascii), Node::file(gen_content(rng, 9)));
    spec.insert(child_of(dir_apath, &multi), Node::file(gen_content(rng, 4)));
    let d = child_of(dir_apath, &dname);
    spec.insert(d.clone(), Node::dir());
    spec.insert(child_of(&d, "inside"), Node::file(gen_content(rng, 6)));
}

/// Put a fifo and a unix socket into `dir` (which must exist). Returns the apaths created.
pub fn add_special_files(root: &Path, dir_apath: &str) -> Vec<String> {
    let dir = if dir_apath == "/" { root.to_path_buf() } else { root.join(&dir_apath[1..]) };
    let mut made = Vec::new();
    let fifo = dir.join("zz-fifo");
    let c = std::ffi::CString::new(fifo.to_string_lossy().as_bytes()).unwrap();
    // SAFETY: plain libc call with a valid NUL-terminated path
    if unsafe { libc::mkfifo(c.as_ptr(), 0o644) } == 0 {
        made.push(child_of(dir_apath, "zz-fifo"));
    }
    let sock = dir.join("zz-sock");
    if let Ok(l) = std::os::unix::net::UnixListener::bind(&sock) {
        drop(l);
        made.push(child_of(dir_apath, "zz-sock"));
    }
    made
}
