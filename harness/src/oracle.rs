//! E5: oracles — restore-and-compare, apath order model, stitch model, glob model.

use std::cmp::Ordering;
use std::path::Path;

use crate::cs;
use crate::fmt06::{Entry, Raw};
use crate::scratch::Scratch;
use crate::tree::{self, CmpOpts, Snapshot};

/// Independent statement of the documented apath order: directory part compared
/// component-wise as byte strings (a proper prefix is smaller), then the final name.
pub fn apath_key(p: &str) -> (Vec<&[u8]>, &[u8]) {
    if p == "/" {
        return (Vec::new(), b"");
    }
    let comps: Vec<&str> = p[1..].split('/').collect();
    let (last, dirs) = comps.split_last().unwrap();
    (dirs.iter().map(|c| c.as_bytes()).collect(), last.as_bytes())
}

pub fn apath_cmp(a: &str, b: &str) -> Ordering {
    let (da, na) = apath_key(a);
    let (db, nb) = apath_key(b);
    // Vec<&[u8]> compares lexicographically, a proper prefix being smaller.
    da.cmp(&db).then_with(|| na.cmp(nb))
}

pub fn apath_valid(p: &str) -> bool {
    if !p.starts_with('/') {
        return false;
    }
    if p.len() == 1 {
        return true;
    }
    p[1..]
        .split('/')
        .all(|c| !c.is_empty() && c != "." && c != ".." && !c.contains('\0'))
}

/// First position at which a sequence of apaths is not strictly increasing.
pub fn first_disorder<'a>(paths: impl IntoIterator<Item = &'a str>) -> Option<(String, String)> {
    let mut prev: Option<&str> = None;
    for p in paths {
        if let Some(q) = prev {
            if apath_cmp(q, p) != Ordering::Less {
                return Some((q.to_string(), p.to_string()));
            }
        }
        prev = Some(p);
    }
    None
}

/// The stitching rule, stated over the raw archive:
/// list(N, after) = own(N) > after ++ (complete(N) ? [] : list(prev_existing(N), last taken))
/// Returns (band the entry comes from, entry).
pub fn stitch_model(raw: &Raw, band: u32) -> Vec<(u32, Entry)> {
    let mut out: Vec<(u32, Entry)> = Vec::new();
    let mut after: Option<String> = None;
    let mut cur = Some(band);
    while let Some(id) = cur {
        let Some(b) = raw.bands.get(&id) else { break };
        if b.head.is_some() {
            // hunks are read in number order until the first missing number
            let mut n = 0u32;
            // The reader lists the hunks present and reads them in order.
            for (_num, h) in b.hunks.iter() {
                n += 1;
                if let crate::fmt06::Hunk::Ok(es) = h {
                    for e in es {
                        let take = match &after {
                            None => true,
                            Some(a) => apath_cmp(a, &e.apath) == Ordering::Less,
                        };
                        if take {
                            out.push((id, e.clone()));
                        }
                    }
                    if let Some(l) = es.last() {
                        let newer = match &after {
                            None => true,
                            Some(a) => apath_cmp(a, &l.apath) == Ordering::Less,
                        };
                        if newer {
                            after = Some(l.apath.clone());
                        }
                    }
                }
            }
            let _ = n;
        }
        if b.tail_raw.is_some() {
            break;
        }
        cur = raw.prev_existing(id);
    }
    out
}

/// Expected tree of a stitched version: for each listed path the node of the snapshot
/// of the band it comes from. Returns None for paths whose origin snapshot lacks them.
pub fn stitched_expected(
    listing: &[(u32, Entry)],
    snaps: &std::collections::BTreeMap<u32, Snapshot>,
) -> Snapshot {
    let mut t = Snapshot::new();
    for (b, e) in listing {
        if let Some(n) = snaps.get(b).and_then(|s| s.get(&e.apath)) {
            t.insert(e.apath.clone(), n.clone());
        }
    }
    t
}

#[derive(Debug)]
pub struct Mismatch {
    pub class: String,
    pub detail: String,
}

/// restore(band) into a fresh directory with an un-hooked transport; require Ok, no monitor
/// errors, and Snapshot(dest) == expected.
pub fn restore_and_compare(
    archive: &Path,
    band: Option<u32>,
    expected: &Snapshot,
    scratch: &Scratch,
    opts: &CmpOpts,
) -> Result<(), Mismatch> {
    let dest = scratch.fresh("restore");
    let out = cs::restore(cs::local(archive), band, &dest, None, &[], false);
    let r = (|| {
        if let Some(p) = &out.panic {
            return Err(Mismatch {
                class: format!("restore-panic:{}", crate::report::panic_site(p)),
                detail: p.clone(),
            });
        }
        if !out.ok() {
            return Err(Mismatch {
                class: "restore-err".into(),
                detail: out.describe(),
            });
        }
        if !out.errors.is_empty() {
            return Err(Mismatch {
                class: "restore-reported-errors".into(),
                detail: out.describe(),
            });
        }
        let actual = tree::snapshot(&dest).map_err(|e| Mismatch {
            class: "harness-snapshot".into(),
            detail: e.to_string(),
        })?;
        let d = tree::diff_snapshots(expected, &actual, opts);
        if d.is_empty() {
            Ok(())
        } else {
            let mut classes: Vec<&str> = d.iter().map(|(c, _)| c.as_str()).collect();
            classes.sort();
            classes.dedup();
            Err(Mismatch {
                class: format!("restore-differs:{}", classes.join("+")),
                detail: d
                    .iter()
                    .take(6)
                    .map(|(_, m)| m.as_str())
                    .collect::<Vec<_>>()
                    .join("; "),
            })
        }
    })();
    crate::scratch::rm(&dest);
    r
}

/// Independent glob oracle for exclusions: a path is omitted iff it or one of its
/// ancestors matches a pattern; patterns with a leading '/' are anchored at the tree
/// root, others match at any depth. Built from the raw pattern with globset only.
pub struct GlobModel {
    pats: Vec<(bool, globset::GlobMatcher)>,
}

impl GlobModel {
    pub fn new(patterns: &[String]) -> GlobModel {
        let pats = patterns
            .iter()
            .map(|p| {
                let anchored = p.starts_with('/');
                let g = globset::GlobBuilder::new(if anchored { &p[1..] } else { p })
                    .literal_separator(true)
                    .build()
                    .expect("glob")
                    .compile_matcher();
                (anchored, g)
            })
            .collect();
        GlobModel { pats }
    }

    /// Does the path itself (not its ancestors) match some pattern?
    fn matches_self(&self, apath: &str) -> bool {
        if apath == "/" {
            return false;
        }
        let comps: Vec<&str> = apath[1..].split('/').collect();
        for (anchored, g) in &self.pats {
            if *anchored {
                if g.is_match(comps.join("/")) {
                    return true;
                }
            } else {
                // at any depth: some suffix of whole components matches
                for i in 0..comps.len() {
                    if g.is_match(comps[i..].join("/")) {
                        return true;
                    }
                }
            }
        }
        false
    }

    pub fn excluded(&self, apath: &str) -> bool {
        if apath == "/" {
            return false;
        }
        let comps: Vec<&str> = apath[1..].split('/').collect();
        for i in 1..=comps.len() {
            let anc = format!("/{}", comps[..i].join("/"));
            if self.matches_self(&anc) {
                return true;
            }
        }
        false
    }
}
