//! E3: interceptor modes on the storage boundary (conserve::transport::hooked).

use std::path::{Path, PathBuf};
use std::sync::{Arc, Mutex};

use async_trait::async_trait;
use conserve::transport::hooked::{Decision, Interceptor, Op};
use conserve::transport::record::Verb;
use conserve::transport::{ErrorKind, Transport, WriteMode};

use crate::rng::{Rng, fnv};

#[derive(Clone, Copy, Debug, PartialEq, Eq, Hash, PartialOrd, Ord)]
pub enum V {
    Read,
    Write,
    ListDir,
    CreateDir,
    Metadata,
    RemoveFile,
    RemoveDirAll,
}

impl V {
    pub fn of(v: Verb) -> V {
        match v {
            Verb::Read => V::Read,
            Verb::Write => V::Write,
            Verb::ListDir => V::ListDir,
            Verb::CreateDir => V::CreateDir,
            Verb::Metadata => V::Metadata,
            Verb::RemoveFile => V::RemoveFile,
            Verb::RemoveDirAll => V::RemoveDirAll,
        }
    }
    pub fn mutating(self) -> bool {
        matches!(self, V::Write | V::CreateDir | V::RemoveFile | V::RemoveDirAll)
    }
    pub fn name(self) -> &'static str {
        match self {
            V::Read => "read",
            V::Write => "write",
            V::ListDir => "list_dir",
            V::CreateDir => "create_dir",
            V::Metadata => "metadata",
            V::RemoveFile => "remove_file",
            V::RemoveDirAll => "remove_dir_all",
        }
    }
}

pub const KINDS: [ErrorKind; 4] = [
    ErrorKind::NotFound,
    ErrorKind::AlreadyExists,
    ErrorKind::PermissionDenied,
    ErrorKind::Other,
];

pub fn kind_name(k: ErrorKind) -> &'static str {
    match k {
        ErrorKind::NotFound => "not-found",
        ErrorKind::AlreadyExists => "already-exists",
        ErrorKind::PermissionDenied => "permission-denied",
        ErrorKind::Other => "other",
        ErrorKind::Connect => "connect",
        _ => "misc",
    }
}

/// State of a path as seen with std::fs, outside conserve.
#[derive(Clone, Debug, PartialEq, Eq)]
pub enum FState {
    Absent,
    Dir,
    File { len: u64, h: u64 },
}

pub fn fstate(p: &Path) -> FState {
    match std::fs::symlink_metadata(p) {
        Err(_) => FState::Absent,
        Ok(m) if m.is_dir() => FState::Dir,
        Ok(_) => match std::fs::read(p) {
            Ok(b) => FState::File {
                len: b.len() as u64,
                h: fnv(&b),
            },
            Err(_) => FState::Absent,
        },
    }
}

#[derive(Clone, Debug)]
pub struct Ev {
    pub idx: usize,
    pub actor: u32,
    pub verb: V,
    pub path: String,
    pub create_new: Option<bool>,
    pub payload_len: usize,
    pub payload_h: u64,
    pub pre: Option<FState>,
    pub post: Option<FState>,
    pub result: Option<Result<usize, ErrorKind>>,
    pub injected: bool,
}

impl Ev {
    pub fn ok(&self) -> bool {
        matches!(self.result, Some(Ok(_)))
    }
    pub fn brief(&self) -> String {
        format!("#{} a{} {} {}", self.idx, self.actor, self.verb.name(), self.path)
    }
}

#[derive(Clone, Debug)]
pub enum Mode {
    Log,
    /// Stop the world before operation k; for a write optionally leave an empty file.
    CrashAt { k: usize, torn: bool },
    FailAt { k: usize, kind: ErrorKind },
    /// Fail operation k with `kind` and the operation that follows it (whatever it turns out
    /// to be: a retry, a cleanup, the next step) with `kind2`.
    FailAtPair { k: usize, kind: ErrorKind, kind2: ErrorKind },
    /// Stop the world before the nth write operation (counting writes only), and optionally
    /// sleep a random few microseconds before every operation (scheduling jitter).
    CrashAtWrite { nth: usize },
    /// No faults; random short sleeps / yields before operations.
    Jitter,
    /// Fail every operation with this verb on exactly this path (a fault addressed by path is
    /// the same fault under every schedule).
    FailPath { verb: V, path: String, kind: ErrorKind },
    /// Every operation selected by `only` fails independently with probability p.
    FailRandom { p: f64 },
}

struct St {
    mode: Mode,
    n: usize,
    frozen: bool,
    frozen_at: Option<Ev>,
    log: Vec<Ev>,
    rng: Rng,
    over_budget: bool,
    injected: usize,
    writes_seen: usize,
}

pub struct Icept {
    pub root: PathBuf,
    budget: usize,
    pub jitter: bool,
    st: Mutex<St>,
}

impl Icept {
    pub fn new(root: &Path, mode: Mode, seed: u64) -> Arc<Icept> {
        Arc::new(Icept {
            root: root.to_path_buf(),
            budget: 2_000_000,
            jitter: false,
            st: Mutex::new(St {
                mode,
                n: 0,
                frozen: false,
                frozen_at: None,
                log: Vec::new(),
                rng: Rng::new(seed),
                over_budget: false,
                injected: 0,
                writes_seen: 0,
            }),
        })
    }

    pub fn with_jitter(root: &Path, mode: Mode, seed: u64) -> Arc<Icept> {
        let mut i = Icept::new(root, mode, seed);
        Arc::get_mut(&mut i).unwrap().jitter = true;
        i
    }

    pub fn with_budget(root: &Path, mode: Mode, seed: u64, budget: usize) -> Arc<Icept> {
        let mut i = Icept::new(root, mode, seed);
        Arc::get_mut(&mut i).unwrap().budget = budget;
        i
    }

    /// A hooked local transport on the archive directory.
    pub fn transport(self: &Arc<Self>, actor: u32) -> Transport {
        Transport::local(&self.root).with_interceptor(actor, self.clone() as Arc<dyn Interceptor>)
    }

    pub fn log(&self) -> Vec<Ev> {
        self.st.lock().unwrap().log.clone()
    }

    pub fn n_ops(&self) -> usize {
        self.st.lock().unwrap().n
    }

    pub fn frozen(&self) -> bool {
        self.st.lock().unwrap().frozen
    }

    pub fn frozen_at(&self) -> Option<Ev> {
        self.st.lock().unwrap().frozen_at.clone()
    }

    pub fn injected(&self) -> usize {
        self.st.lock().unwrap().injected
    }

    pub fn over_budget(&self) -> bool {
        self.st.lock().unwrap().over_budget
    }
}

impl Icept {
    fn before_sync(&self, op: &Op) -> (Decision, Option<u64>) {
        let mut st = self.st.lock().unwrap();
        let verb = V::of(op.verb);
        if st.frozen {
            st.n += 1;
            if st.n > self.budget {
                st.over_budget = true;
                drop(st);
                panic!("cv: storage operation budget exceeded");
            }
            return (Decision::Fail(ErrorKind::Other), None);
        }
        let idx = st.n;
        st.n += 1;
        if st.n > self.budget {
            st.over_budget = true;
            drop(st);
            panic!("cv: storage operation budget exceeded");
        }
        let full = self.root.join(&op.path);
        let mut ev = Ev {
            idx,
            actor: op.actor,
            verb,
            path: op.path.clone(),
            create_new: op.write_mode.map(|m| m == WriteMode::CreateNew),
            payload_len: op.payload.as_ref().map(|p| p.len()).unwrap_or(0),
            payload_h: op.payload.as_ref().map(|p| fnv(p)).unwrap_or(0),
            pre: if verb.mutating() { Some(fstate(&full)) } else { None },
            post: None,
            result: None,
            injected: false,
        };
        let decision = match st.mode.clone() {
            Mode::Log => Decision::Proceed,
            Mode::CrashAt { k, torn } => {
                if idx == k {
                    if torn && verb == V::Write && ev.pre == Some(FState::Absent) {
                        // what a killed local write can leave: the file exists, empty
                        let _ = std::fs::write(&full, b"");
                        if std::env::var("CV_TORN_PARTIAL").is_ok() {
                            if let Some(p) = &op.payload {
                                let _ = std::fs::write(&full, &p[..p.len() / 2]);
                            }
                        }
                    }
                    st.frozen = true;
                    st.frozen_at = Some(ev.clone());
                    Decision::Fail(ErrorKind::Other)
                } else {
                    Decision::Proceed
                }
            }
            Mode::Jitter => Decision::Proceed,
            Mode::FailPath { verb: fv, path, kind } => {
                if verb == fv && op.path == path {
                    Decision::Fail(kind)
                } else {
                    Decision::Proceed
                }
            }
            Mode::CrashAtWrite { nth } => {
                if verb == V::Write {
                    st.writes_seen += 1;
                }
                if verb == V::Write && st.writes_seen == nth + 1 {
                    st.frozen = true;
                    st.frozen_at = Some(ev.clone());
                    Decision::Fail(ErrorKind::Other)
                } else {
                    Decision::Proceed
                }
            }
            Mode::FailAt { k, kind } => {
                if idx == k {
                    Decision::Fail(kind)
                } else {
                    Decision::Proceed
                }
            }
            Mode::FailAtPair { k, kind, kind2 } => {
                if idx == k {
                    Decision::Fail(kind)
                } else if idx == k + 1 {
                    Decision::Fail(kind2)
                } else {
                    Decision::Proceed
                }
            }
            Mode::FailRandom { p } => {
                if st.rng.f64() < p {
                    let kind = *st.rng.pick(&KINDS);
                    Decision::Fail(kind)
                } else {
                    Decision::Proceed
                }
            }
        };
        if let Decision::Fail(_) = decision {
            ev.injected = true;
            st.injected += 1;
        }
        st.log.push(ev);
        let jitter = if self.jitter { Some(st.rng.below(4)) } else { None };
        (decision, jitter)
    }
}

#[async_trait]
impl Interceptor for Icept {
    async fn before(&self, op: &Op) -> Decision {
        let (decision, jitter) = self.before_sync(op);
        match jitter {
            Some(0) => tokio::task::yield_now().await,
            Some(1) => tokio::time::sleep(std::time::Duration::from_micros(50)).await,
            Some(2) => {
                tokio::task::yield_now().await;
                tokio::task::yield_now().await;
            }
            _ => {}
        }
        decision
    }

    async fn after(&self, op: &Op, result: Result<usize, ErrorKind>) {
        // operations refused after a freeze were not logged and find no event here
        let mut st = self.st.lock().unwrap();
        let verb = V::of(op.verb);
        let full = self.root.join(&op.path);
        if let Some(ev) = st
            .log
            .iter_mut()
            .rev()
            .find(|e| e.result.is_none() && e.verb == verb && e.path == op.path && e.actor == op.actor)
        {
            ev.result = Some(result);
            if verb.mutating() {
                ev.post = Some(fstate(&full));
            }
        }
    }
}
