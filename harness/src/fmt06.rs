//! E2: independent reader and writer of the documented 0.6 archive format
//! (doc/format.md). Uses only std::fs, snap (raw Snappy), serde_json::Value and
//! blake2-rfc; none of conserve's reader/writer code.

use std::collections::{BTreeMap, BTreeSet};
use std::fs;
use std::path::{Path, PathBuf};

use serde_json::{Value, json};

#[derive(Clone, Debug, PartialEq, Eq)]
pub struct Addr {
    pub hash: String,
    pub start: u64,
    pub len: u64,
}

#[derive(Clone, Debug, PartialEq)]
pub struct Entry {
    pub apath: String,
    pub kind: String,
    pub mtime: i64,
    pub mtime_nanos: u64,
    pub unix_mode: Option<u64>,
    pub user: Option<String>,
    pub group: Option<String>,
    pub addrs: Vec<Addr>,
    pub has_addrs_key: bool,
    pub target: Option<String>,
    pub raw: Value,
}

impl Entry {
    pub fn size(&self) -> u64 {
        self.addrs.iter().map(|a| a.len).sum()
    }
}

#[derive(Clone, Debug)]
pub enum Hunk {
    Ok(Vec<Entry>),
    Bad(String),
}

#[derive(Clone, Debug, Default)]
pub struct Band {
    pub id: u32,
    pub dirname: String,
    pub head_raw: Option<Vec<u8>>,
    pub head: Option<Value>,
    pub tail_raw: Option<Vec<u8>>,
    pub tail: Option<Value>,
    /// hunk number -> decoded hunk, for files found at their canonical path.
    pub hunks: BTreeMap<u32, Hunk>,
    /// Anything under the band directory that is not head, tail, `i/`, a canonical
    /// subdirectory or a canonical hunk file.
    pub unexpected: Vec<String>,
}

impl Band {
    pub fn has_head(&self) -> bool {
        self.head.is_some()
    }
    pub fn complete(&self) -> bool {
        self.tail_raw.is_some()
    }
    /// Entries of the consecutive readable hunks 0..m (what a reader walking the band sees).
    pub fn own_entries(&self) -> Vec<&Entry> {
        let mut v = Vec::new();
        for h in self.hunks.values() {
            if let Hunk::Ok(es) = h {
                v.extend(es.iter());
            }
        }
        v
    }
}

#[derive(Clone, Debug)]
pub struct Block {
    pub relpath: String,
    pub comp_len: u64,
    /// Uncompressed length if it decompresses.
    pub len: Option<u64>,
    /// Does BLAKE2b-512(uncompressed) equal the file name?
    pub hash_ok: bool,
}

#[derive(Clone, Debug, Default)]
pub struct Raw {
    pub root: PathBuf,
    pub header: Option<Value>,
    pub bands: BTreeMap<u32, Band>,
    /// block name -> info, for files under d/xxx/
    pub blocks: BTreeMap<String, Block>,
    pub misplaced_blocks: Vec<String>,
    pub top_other: Vec<String>,
    pub gc_lock: bool,
}

pub fn blake2b_hex(data: &[u8]) -> String {
    let h = blake2_rfc::blake2b::blake2b(64, &[], data);
    hex::encode(h.as_bytes())
}

pub fn snappy_decompress(data: &[u8]) -> Result<Vec<u8>, String> {
    snap::raw::Decoder::new()
        .decompress_vec(data)
        .map_err(|e| e.to_string())
}

pub fn snappy_compress(data: &[u8]) -> Vec<u8> {
    snap::raw::Encoder::new().compress_vec(data).unwrap()
}

pub fn parse_entry(v: &Value) -> Result<Entry, String> {
    let o = v.as_object().ok_or("entry is not an object")?;
    let apath = o
        .get("apath")
        .and_then(|a| a.as_str())
        .ok_or("entry without apath")?
        .to_string();
    let kind = o
        .get("kind")
        .and_then(|a| a.as_str())
        .ok_or("entry without kind")?
        .to_string();
    let mut addrs = Vec::new();
    let has_addrs_key = o.contains_key("addrs");
    if let Some(a) = o.get("addrs") {
        for ad in a.as_array().ok_or("addrs is not a list")? {
            let hash = ad
                .get("hash")
                .and_then(|h| h.as_str())
                .ok_or("addr without hash")?
                .to_string();
            let start = ad.get("start").map(|s| s.as_u64().ok_or("bad start")).transpose()?.unwrap_or(0);
            let len = ad.get("len").and_then(|s| s.as_u64()).ok_or("addr without len")?;
            addrs.push(Addr { hash, start, len });
        }
    }
    Ok(Entry {
        apath,
        kind,
        mtime: o.get("mtime").and_then(|m| m.as_i64()).unwrap_or(0),
        mtime_nanos: o.get("mtime_nanos").and_then(|m| m.as_u64()).unwrap_or(0),
        unix_mode: o.get("unix_mode").and_then(|m| m.as_u64()),
        user: o.get("user").and_then(|m| m.as_str()).map(String::from),
        group: o.get("group").and_then(|m| m.as_str()).map(String::from),
        addrs,
        has_addrs_key,
        target: o.get("target").and_then(|m| m.as_str()).map(String::from),
        raw: v.clone(),
    })
}

pub fn decode_hunk(bytes: &[u8]) -> Hunk {
    let plain = match snappy_decompress(bytes) {
        Ok(p) => p,
        Err(e) => return Hunk::Bad(format!("snappy: {e}")),
    };
    let v: Value = match serde_json::from_slice(&plain) {
        Ok(v) => v,
        Err(e) => return Hunk::Bad(format!("json: {e}")),
    };
    let Some(list) = v.as_array() else {
        return Hunk::Bad("hunk is not a json list".into());
    };
    let mut es = Vec::new();
    for item in list {
        match parse_entry(item) {
            Ok(e) => es.push(e),
            Err(e) => return Hunk::Bad(e),
        }
    }
    Hunk::Ok(es)
}

fn list(dir: &Path) -> Vec<(String, bool)> {
    let mut v = Vec::new();
    if let Ok(rd) = fs::read_dir(dir) {
        for e in rd.flatten() {
            let name = e.file_name().to_string_lossy().into_owned();
            let is_dir = e.file_type().map(|t| t.is_dir()).unwrap_or(false);
            v.push((name, is_dir));
        }
    }
    v.sort();
    v
}

pub fn band_dirname(id: u32) -> String {
    format!("b{id:04}")
}

pub fn hunk_relpath(n: u32) -> String {
    format!("i/{:05}/{:09}", n / 10000, n)
}

fn parse_band_dirname(name: &str) -> Option<u32> {
    let rest = name.strip_prefix('b')?;
    if rest.is_empty() || !rest.bytes().all(|b| b.is_ascii_digit()) {
        return None;
    }
    rest.parse().ok()
}

/// Read the whole archive directory. `with_block_content` controls whether blocks are
/// decompressed and hashed (needed for most checks).
pub fn read_archive(root: &Path, with_block_content: bool) -> Raw {
    let mut raw = Raw {
        root: root.to_path_buf(),
        ..Default::default()
    };
    for (name, is_dir) in list(root) {
        if name == "CONSERVE" && !is_dir {
            raw.header = fs::read(root.join(&name))
                .ok()
                .and_then(|b| serde_json::from_slice(&b).ok());
        } else if name == "GC_LOCK" && !is_dir {
            raw.gc_lock = true;
        } else if name == "d" && is_dir {
            for (sub, sub_is_dir) in list(&root.join("d")) {
                if !sub_is_dir {
                    raw.misplaced_blocks.push(format!("d/{sub}"));
                    continue;
                }
                for (bname, b_is_dir) in list(&root.join("d").join(&sub)) {
                    let rel = format!("d/{sub}/{bname}");
                    if b_is_dir || sub.len() != 3 || !bname.starts_with(&sub) || bname.len() != 128 {
                        raw.misplaced_blocks.push(rel);
                        continue;
                    }
                    let p = root.join(&rel);
                    let comp_len = fs::metadata(&p).map(|m| m.len()).unwrap_or(0);
                    let (len, hash_ok) = if with_block_content {
                        match fs::read(&p).ok().and_then(|b| snappy_decompress(&b).ok()) {
                            Some(plain) => (Some(plain.len() as u64), blake2b_hex(&plain) == bname),
                            None => (None, false),
                        }
                    } else {
                        (None, false)
                    };
                    raw.blocks.insert(
                        bname.clone(),
                        Block {
                            relpath: rel,
                            comp_len,
                            len,
                            hash_ok,
                        },
                    );
                }
            }
        } else if is_dir && parse_band_dirname(&name).is_some() {
            let id = parse_band_dirname(&name).unwrap();
            let mut band = Band {
                id,
                dirname: name.clone(),
                ..Default::default()
            };
            let bdir = root.join(&name);
            for (n2, d2) in list(&bdir) {
                match (n2.as_str(), d2) {
                    ("BANDHEAD", false) => {
                        band.head_raw = fs::read(bdir.join("BANDHEAD")).ok();
                        band.head = band
                            .head_raw
                            .as_ref()
                            .and_then(|b| serde_json::from_slice(b).ok());
                    }
                    ("BANDTAIL", false) => {
                        band.tail_raw = fs::read(bdir.join("BANDTAIL")).ok();
                        band.tail = band
                            .tail_raw
                            .as_ref()
                            .and_then(|b| serde_json::from_slice(b).ok());
                    }
                    ("i", true) => {
                        for (sub, sd) in list(&bdir.join("i")) {
                            if !sd || sub.len() != 5 || !sub.bytes().all(|b| b.is_ascii_digit()) {
                                band.unexpected.push(format!("i/{sub}"));
                                continue;
                            }
                            for (h, hd) in list(&bdir.join("i").join(&sub)) {
                                let rel = format!("i/{sub}/{h}");
                                let num = h.parse::<u32>().ok();
                                if hd || h.len() != 9 || num.is_none() || hunk_relpath(num.unwrap()) != rel {
                                    band.unexpected.push(rel);
                                    continue;
                                }
                                let hunk = match fs::read(bdir.join(&rel)) {
                                    Ok(b) => decode_hunk(&b),
                                    Err(e) => Hunk::Bad(format!("read: {e}")),
                                };
                                band.hunks.insert(num.unwrap(), hunk);
                            }
                        }
                    }
                    _ => band.unexpected.push(n2),
                }
            }
            raw.bands.insert(id, band);
        } else {
            raw.top_other.push(name);
        }
    }
    raw
}

impl Raw {
    /// Band ids that have a head and a tail (complete versions).
    pub fn complete_bands(&self) -> Vec<u32> {
        self.bands
            .values()
            .filter(|b| b.has_head() && b.complete())
            .map(|b| b.id)
            .collect()
    }

    /// hash -> max end (start+len) referenced, by the band's own hunks.
    pub fn references_of_band(&self, id: u32) -> BTreeMap<String, u64> {
        let mut m = BTreeMap::new();
        if let Some(b) = self.bands.get(&id) {
            for e in b.own_entries() {
                for a in &e.addrs {
                    let end = a.start + a.len;
                    let x = m.entry(a.hash.clone()).or_insert(0);
                    if end > *x {
                        *x = end;
                    }
                }
            }
        }
        m
    }

    pub fn referenced_blocks(&self, bands: impl IntoIterator<Item = u32>) -> BTreeSet<String> {
        let mut s = BTreeSet::new();
        for id in bands {
            s.extend(self.references_of_band(id).into_keys());
        }
        s
    }

    /// Dangling or too-short references of the band's own hunks: (apath, problem)
    pub fn dangling_refs(&self, id: u32) -> Vec<(String, String)> {
        let mut v = Vec::new();
        let Some(b) = self.bands.get(&id) else {
            return v;
        };
        for e in b.own_entries() {
            for a in &e.addrs {
                match self.blocks.get(&a.hash) {
                    None => v.push((e.apath.clone(), format!("block {} missing", &a.hash[..12]))),
                    Some(bl) => match bl.len {
                        None => v.push((
                            e.apath.clone(),
                            format!("block {} empty or undecodable (comp_len {})", &a.hash[..12], bl.comp_len),
                        )),
                        Some(l) if a.start + a.len > l => v.push((
                            e.apath.clone(),
                            format!("block {} has {} bytes, entry needs {}+{}", &a.hash[..12], l, a.start, a.len),
                        )),
                        _ => {}
                    },
                }
            }
        }
        v
    }

    /// Concatenate the addressed slices of the raw blocks for an entry.
    pub fn resolve(&self, e: &Entry) -> Result<Vec<u8>, String> {
        let mut out = Vec::new();
        for a in &e.addrs {
            let bl = self
                .blocks
                .get(&a.hash)
                .ok_or_else(|| format!("block {} missing", &a.hash[..12]))?;
            let bytes = fs::read(self.root.join(&bl.relpath)).map_err(|e| e.to_string())?;
            let plain = snappy_decompress(&bytes)?;
            let (s, l) = (a.start as usize, a.len as usize);
            if s + l > plain.len() {
                return Err(format!(
                    "block {} has {} bytes, entry needs {}+{}",
                    &a.hash[..12],
                    plain.len(),
                    s,
                    l
                ));
            }
            out.extend_from_slice(&plain[s..s + l]);
        }
        Ok(out)
    }

    /// The previous band id (< id) that exists with a BANDHEAD file present.
    pub fn prev_existing(&self, id: u32) -> Option<u32> {
        self.bands
            .range(..id)
            .rev()
            .find(|(_, b)| b.head_raw.is_some())
            .map(|(i, _)| *i)
    }
}

// ---------------------------------------------------------------------------
// Writer (for hand-made archives)

pub fn write_archive_header(root: &Path) {
    fs::create_dir_all(root.join("d")).unwrap();
    fs::write(root.join("CONSERVE"), b"{\"conserve_archive_version\":\"0.6\"}\n").unwrap();
}

pub fn write_band(root: &Path, id: u32, hunks: &[Vec<Value>], complete: bool) {
    let bdir = root.join(band_dirname(id));
    fs::create_dir_all(bdir.join("i")).unwrap();
    fs::write(
        bdir.join("BANDHEAD"),
        b"{\"start_time\":1700000000,\"band_format_version\":\"0.6.3\",\"format_flags\":[]}\n",
    )
    .unwrap();
    for (n, h) in hunks.iter().enumerate() {
        let rel = hunk_relpath(n as u32);
        let p = bdir.join(&rel);
        fs::create_dir_all(p.parent().unwrap()).unwrap();
        let json = serde_json::to_vec(&Value::Array(h.clone())).unwrap();
        fs::write(p, snappy_compress(&json)).unwrap();
    }
    if complete {
        fs::write(
            bdir.join("BANDTAIL"),
            format!("{{\"end_time\":1700000001,\"index_hunk_count\":{}}}\n", hunks.len()),
        )
        .unwrap();
    }
}

pub fn symlink_entry(apath: &str, target: &str) -> Value {
    json!({"apath": apath, "kind": "Symlink", "mtime": 0, "unix_mode": null, "target": target})
}

pub fn dir_entry(apath: &str) -> Value {
    json!({"apath": apath, "kind": "Dir", "mtime": 0, "unix_mode": 493})
}

// ---------------------------------------------------------------------------
// Byte-level directory snapshot (path -> bytes or dir marker)

#[derive(Clone, Debug, PartialEq, Eq)]
pub enum FsItem {
    Dir,
    File(Vec<u8>),
}

pub fn dir_bytes(root: &Path) -> BTreeMap<String, FsItem> {
    fn walk(m: &mut BTreeMap<String, FsItem>, root: &Path, rel: &str) {
        let p = if rel.is_empty() { root.to_path_buf() } else { root.join(rel) };
        let Ok(rd) = fs::read_dir(&p) else { return };
        for e in rd.flatten() {
            let name = e.file_name().to_string_lossy().into_owned();
            let r = if rel.is_empty() { name.clone() } else { format!("{rel}/{name}") };
            if e.file_type().map(|t| t.is_dir()).unwrap_or(false) {
                m.insert(r.clone(), FsItem::Dir);
                walk(m, root, &r);
            } else {
                m.insert(r, FsItem::File(fs::read(e.path()).unwrap_or_default()));
            }
        }
    }
    let mut m = BTreeMap::new();
    walk(&mut m, root, "");
    m
}

pub fn copy_dir(from: &Path, to: &Path) {
    fs::create_dir_all(to).unwrap();
    for e in fs::read_dir(from).unwrap().flatten() {
        let t = to.join(e.file_name());
        if e.file_type().unwrap().is_dir() {
            copy_dir(&e.path(), &t);
        } else {
            fs::copy(e.path(), &t).unwrap();
        }
    }
}
