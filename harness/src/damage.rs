//! Damage to single archive files, shared by C09 and C10.

use std::collections::{BTreeMap, BTreeSet};
use std::path::{Path, PathBuf};

use crate::cs::{self, Opts};
use crate::fmt06::{self, Hunk, Raw};
use crate::history::World;
use crate::oracle::stitch_model;
use crate::props::c03::path_class;
use crate::rng::Rng;
use crate::tree::{GenParams, Snapshot};

#[derive(Clone, Debug, PartialEq, Eq)]
pub enum Action {
    Delete,
    Truncate0,
    TruncateHalf,
    Garbage,
    BitFlip(u64),
    /// One flipped bit in the (uncompressed) JSON text of a hunk, head or tail, chosen so that
    /// the file still decodes: the damage no checksum catches.
    JsonFlip(u64),
    /// One field of the JSON of a hunk, head or tail set to a value at or beyond the edge of
    /// its type (times, nanoseconds, block offsets and lengths, modes, counts); the file still
    /// decodes as JSON.
    JsonField(u64),
}

impl Action {
    pub fn name(&self) -> String {
        match self {
            Action::Delete => "delete".into(),
            Action::Truncate0 => "truncate0".into(),
            Action::TruncateHalf => "truncate-half".into(),
            Action::Garbage => "garbage".into(),
            Action::BitFlip(n) => format!("bitflip{n}"),
            Action::JsonFlip(n) => format!("jsonflip{n}"),
            Action::JsonField(n) => format!("jsonfield{n}"),
        }
    }
    pub fn parse(name: &str) -> Option<Action> {
        Some(match name {
            "delete" => Action::Delete,
            "truncate0" => Action::Truncate0,
            "truncate-half" => Action::TruncateHalf,
            "garbage" => Action::Garbage,
            _ => {
                if let Some(n) = name.strip_prefix("bitflip") {
                    Action::BitFlip(n.parse().ok()?)
                } else if let Some(n) = name.strip_prefix("jsonflip") {
                    Action::JsonFlip(n.parse().ok()?)
                } else if let Some(n) = name.strip_prefix("jsonfield") {
                    Action::JsonField(n.parse().ok()?)
                } else {
                    return None;
                }
            }
        })
    }
    pub fn class(&self) -> &'static str {
        match self {
            Action::Delete => "delete",
            Action::Truncate0 => "truncate0",
            Action::TruncateHalf => "truncate-half",
            Action::Garbage => "garbage",
            Action::BitFlip(_) => "bitflip",
            Action::JsonFlip(_) => "jsonflip",
            Action::JsonField(_) => "jsonfield",
        }
    }
}

#[derive(Clone, Debug)]
pub struct Damage {
    pub relpath: String,
    pub action: Action,
}

impl Damage {
    pub fn desc(&self) -> String {
        format!("{} {}", self.action.name(), self.relpath)
    }
    pub fn class(&self) -> String {
        format!("{}:{}", self.action.class(), path_class(&self.relpath))
    }
}

pub fn apply(root: &Path, d: &Damage, seed: u64) {
    let p = root.join(&d.relpath);
    let mut rng = Rng::for_case(seed, crate::rng::fnv(d.relpath.as_bytes()), 77);
    match &d.action {
        Action::Delete => {
            let _ = std::fs::remove_file(&p);
        }
        Action::Truncate0 => std::fs::write(&p, b"").unwrap(),
        Action::TruncateHalf => {
            let b = std::fs::read(&p).unwrap();
            std::fs::write(&p, &b[..b.len() / 2]).unwrap();
        }
        Action::Garbage => {
            let n = std::fs::metadata(&p).map(|m| m.len()).unwrap_or(16).max(8) as usize;
            std::fs::write(&p, rng.bytes(n)).unwrap();
        }
        Action::JsonFlip(i) => {
            let raw = std::fs::read(&p).unwrap();
            let is_hunk = path_class(&d.relpath) == "hunk";
            let plain = if is_hunk { fmt06::snappy_decompress(&raw).unwrap_or_default() } else { raw.clone() };
            let mut r = Rng::for_case(seed ^ (*i).wrapping_mul(7919), crate::rng::fnv(d.relpath.as_bytes()), 79);
            // positions inside values: digits, and bytes of strings
            let cands: Vec<usize> = plain
                .iter()
                .enumerate()
                .filter(|(_, b)| b.is_ascii_digit() || b.is_ascii_alphabetic() || **b == b'/' || **b == b'-')
                .map(|(i, _)| i)
                .collect();
            if !cands.is_empty() {
                for _ in 0..200 {
                    let pos = *r.pick(&cands);
                    let bit = 1u8 << r.below(8);
                    let mut m = plain.clone();
                    m[pos] ^= bit;
                    if m != plain && serde_json::from_slice::<serde_json::Value>(&m).is_ok() {
                        let out = if is_hunk { fmt06::snappy_compress(&m) } else { m };
                        std::fs::write(&p, out).unwrap();
                        break;
                    }
                }
            }
        }
        Action::JsonField(k) => {
            use serde_json::json;
            let raw = std::fs::read(&p).unwrap();
            let is_hunk = path_class(&d.relpath) == "hunk";
            let plain = if is_hunk { fmt06::snappy_decompress(&raw).unwrap_or_default() } else { raw.clone() };
            let Ok(mut v) = serde_json::from_slice::<serde_json::Value>(&plain) else { return };
            if is_hunk {
                let Some(entries) = v.as_array_mut() else { return };
                if entries.is_empty() {
                    return;
                }
                // the first entry with addresses for the address fields, else the first entry
                let with_addrs = entries.iter().position(|e| e.get("addrs").and_then(|a| a.as_array()).map(|a| !a.is_empty()).unwrap_or(false));
                let (idx, edit): (usize, Box<dyn Fn(&mut serde_json::Value)>) = match k % 10 {
                    0 => (0, Box::new(|e| e["mtime"] = json!(160000030899551i64))),
                    1 => (0, Box::new(|e| e["mtime"] = json!(-400000000000000i64))),
                    2 => (0, Box::new(|e| e["mtime_nanos"] = json!(4_000_000_000u64))),
                    3 => (0, Box::new(|e| e["mtime_nanos"] = json!(1_000_000_000u64))),
                    4 => (0, Box::new(|e| e["mtime"] = json!(i64::MAX))),
                    5 => (0, Box::new(|e| e["unix_mode"] = json!(u32::MAX))),
                    6 => (with_addrs.unwrap_or(0), Box::new(|e| if e.get("addrs").is_some() { e["addrs"][0]["start"] = json!(u64::MAX) })),
                    7 => (with_addrs.unwrap_or(0), Box::new(|e| if e.get("addrs").is_some() { e["addrs"][0]["len"] = json!(u64::MAX) })),
                    8 => (with_addrs.unwrap_or(0), Box::new(|e| if e.get("addrs").is_some() { e["addrs"][0]["start"] = json!(u64::MAX - 3); e["addrs"][0]["len"] = json!(10) })),
                    _ => (0, Box::new(|e| e["mtime"] = json!(i64::MIN))),
                };
                edit(&mut entries[idx]);
            } else if v.is_object() {
                match k % 4 {
                    0 => v["start_time"] = json!(i64::MAX),
                    1 => v["start_time"] = json!(i64::MIN),
                    2 => v["end_time"] = json!(i64::MAX),
                    _ => v["index_hunk_count"] = json!(u64::MAX),
                }
            }
            let m = serde_json::to_vec(&v).unwrap();
            std::fs::write(&p, if is_hunk { fmt06::snappy_compress(&m) } else { m }).unwrap();
        }
        Action::BitFlip(i) => {
            let mut b = std::fs::read(&p).unwrap();
            if !b.is_empty() {
                let mut r = Rng::for_case(seed ^ *i, crate::rng::fnv(d.relpath.as_bytes()), 78);
                let pos = r.below(b.len() as u64) as usize;
                b[pos] ^= 1 << r.below(8);
                std::fs::write(&p, b).unwrap();
            }
        }
    }
}

/// All regular files of the archive except the header, as relative paths.
pub fn archive_files(root: &Path) -> Vec<String> {
    fmt06::dir_bytes(root)
        .into_iter()
        .filter(|(p, i)| matches!(i, fmt06::FsItem::File(_)) && p != "CONSERVE")
        .map(|(p, _)| p)
        .collect()
}

pub struct Subject {
    pub world: World,
    pub opts: Opts,
    pub complete: BTreeSet<u32>,
    pub bands: Vec<u32>,
    pub desc: Vec<String>,
    /// band -> what restoring it gave before any damage (for incomplete bands: the stitched tree)
    pub expected: BTreeMap<u32, Snapshot>,
}

/// An archive with a few versions sharing blocks, optionally an interrupted band (with header).
pub fn build_subject(seed: u64, case: u64, tag: &str) -> Subject {
    let mut rng = Rng::for_case(seed, case, 30);
    let opts = Opts { hunk: *rng.pick(&[2usize, 3]), block: *rng.pick(&[32usize, 64]), cap: *rng.pick(&[8u64, 16]) };
    let mut p = GenParams::small(opts.block, opts.cap);
    p.target_entries = 6 + rng.below(5) as usize;
    p.max_plain_size = 200;
    p.max_depth = 2;
    p.hostile_mtimes = false;
    p.hostile_modes = false;
    p.owners = false;
    let mut w = World::new(tag, &mut rng, p, seed ^ (case << 11));
    let mut desc = Vec::new();
    // several small files that end up sharing one combined block
    {
        let old = w.spec.clone();
        for i in 0..4usize {
            let mut n = crate::tree::Node::file(crate::tree::gen_content(&mut rng, (opts.cap as usize).saturating_sub(1 + i % 3).max(2)));
            (n.mtime_s, n.mtime_ns) = w.clock.next(&mut rng);
            w.spec.insert(format!("/zs{i}"), n);
        }
        // in every other subject, two more directories below the root with files of their own, so
        // that a listing restricted to one directory has entries of another one after it
        if case % 2 == 0 {
            for d in ["/ya", "/yb"] {
                let mut n = crate::tree::Node::dir();
                (n.mtime_s, n.mtime_ns) = w.clock.next(&mut rng);
                w.spec.insert(d.to_string(), n);
                for f in ["p", "q"] {
                    let mut n = crate::tree::Node::file(crate::tree::gen_content(&mut rng, 20 + f.len()));
                    (n.mtime_s, n.mtime_ns) = w.clock.next(&mut rng);
                    w.spec.insert(format!("{d}/{f}"), n);
                }
            }
        }
        crate::tree::sync_to_disk(Some(&old), &w.spec, &w.src).expect("sync");
        w.snap = crate::tree::snapshot(&w.src).expect("snapshot");
    }
    let r = w.backup(opts);
    assert!(r.backup.as_ref().unwrap().ok());
    desc.push(r.desc);
    desc.push(w.mutate(&mut rng, 3).desc);
    if case % 2 == 1 {
        // an interrupted band in the middle
        let trace = w.measure_trace(opts);
        let hunk_writes: Vec<usize> = trace.iter().filter(|e| e.verb == crate::icept::V::Write && path_class(&e.path) == "hunk").map(|e| e.idx).collect();
        if hunk_writes.len() >= 2 {
            let k = hunk_writes[hunk_writes.len() / 2] + 1;
            let r = w.interrupted_backup(opts, k, trace.len(), false);
            desc.push(r.desc);
            desc.push(w.mutate(&mut rng, 2).desc);
        }
    }
    let r = w.backup(opts);
    assert!(r.backup.as_ref().unwrap().ok());
    desc.push(r.desc);
    if case % 4 >= 2 {
        // the newest band is an interrupted one
        desc.push(w.mutate(&mut rng, 3).desc);
        let trace = w.measure_trace(opts);
        let hunk_writes: Vec<usize> = trace.iter().filter(|e| e.verb == crate::icept::V::Write && path_class(&e.path) == "hunk").map(|e| e.idx).collect();
        if hunk_writes.len() >= 2 {
            let k = hunk_writes[hunk_writes.len() / 2] + 1;
            let r = w.interrupted_backup(opts, k, trace.len(), false);
            desc.push(r.desc);
        }
    }
    let raw = w.raw(false);
    let bands: Vec<u32> = raw.bands.keys().copied().collect();
    let complete: BTreeSet<u32> = raw.complete_bands().into_iter().collect();
    // what restoring each band gives before any damage (for an incomplete band: the stitched
    // tree, minus entries that have no directory above them in the listing)
    let mut expected = BTreeMap::new();
    for b in &bands {
        let dest = w.sc.fresh("pre");
        let out = restore_outcome(&w.arch, *b, &dest);
        assert!(out.ok(), "pre-damage restore of b{b:04} failed: {}", out.describe());
        if complete.contains(b) {
            assert!(out.errors.is_empty(), "pre-damage restore of b{b:04}: {}", out.describe());
        }
        expected.insert(*b, crate::tree::snapshot(&dest).expect("snapshot"));
        crate::scratch::rm(&dest);
    }
    Subject { world: w, opts, complete, bands, desc, expected }
}

/// Scale: one complete version of 10 040 files with one entry per index hunk, so that the
/// band has hunks in two index subdirectories.
pub fn build_scale_subject(seed: u64, tag: &str) -> Subject {
    let mut w = crate::history::many_hunks_world(tag, seed);
    let opts = crate::history::MANY_HUNKS_OPTS;
    let r = w.backup(opts);
    assert!(r.backup.as_ref().unwrap().clean(), "scale backup failed");
    let desc = vec![format!("[10 040-file tree] {}", r.desc)];
    let dest = w.sc.fresh("pre");
    let out = restore_outcome(&w.arch, 0, &dest);
    assert!(out.clean(), "pre-damage restore of the scale subject: {}", out.describe());
    let mut expected = BTreeMap::new();
    expected.insert(0, crate::tree::snapshot(&dest).expect("snapshot"));
    crate::scratch::rm(&dest);
    Subject { world: w, opts, complete: [0u32].into_iter().collect(), bands: vec![0], desc, expected }
}

/// The damages tried on the scale subject: hunks on both sides of the subdirectory boundary.
/// Damage to blocks that share their d/xyz subdirectory with other blocks (with thousands of
/// blocks most do): emptied and deleted.
pub fn scale_block_damages(root: &Path) -> Vec<Damage> {
    let mut by_dir: BTreeMap<String, Vec<String>> = BTreeMap::new();
    for f in archive_files(root) {
        if path_class(&f) == "block" {
            by_dir.entry(f[..5].to_string()).or_default().push(f);
        }
    }
    let mut v = Vec::new();
    for (_, files) in by_dir.iter().filter(|(_, fs)| fs.len() >= 3).take(3) {
        // the first, a middle and the last name of the subdirectory (readdir order is unknown)
        for f in [&files[0], &files[files.len() / 2], &files[files.len() - 1]] {
            v.push(Damage { relpath: f.clone(), action: Action::Truncate0 });
        }
        v.push(Damage { relpath: files[0].clone(), action: Action::Delete });
    }
    v
}

pub fn scale_damages() -> Vec<Damage> {
    let hunk = |n: u32| format!("b0000/{}", fmt06::hunk_relpath(n));
    let mut v = Vec::new();
    for n in [5u32, 9_999, 10_000, 10_030] {
        v.push(Damage { relpath: hunk(n), action: Action::Delete });
        v.push(Damage { relpath: hunk(n), action: Action::Truncate0 });
    }
    v.push(Damage { relpath: hunk(7), action: Action::Garbage });
    v.push(Damage { relpath: hunk(10_001), action: Action::TruncateHalf });
    v.push(Damage { relpath: hunk(10_040), action: Action::Delete });
    v
}

/// For each band: for each path of its (stitched) listing, the archive files its restore depends
/// on: the hunk file the entry is in, the BANDHEAD of that hunk's band, its blocks.
pub fn dependencies(raw: &Raw, band: u32) -> BTreeMap<String, BTreeSet<String>> {
    let mut where_is: BTreeMap<(u32, String), u32> = BTreeMap::new();
    for (id, b) in &raw.bands {
        for (n, h) in &b.hunks {
            if let Hunk::Ok(es) = h {
                for e in es {
                    where_is.insert((*id, e.apath.clone()), *n);
                }
            }
        }
    }
    let mut m = BTreeMap::new();
    for (origin, e) in stitch_model(raw, band) {
        let mut deps = BTreeSet::new();
        let dirname = fmt06::band_dirname(origin);
        deps.insert(format!("{dirname}/BANDHEAD"));
        if let Some(n) = where_is.get(&(origin, e.apath.clone())) {
            deps.insert(format!("{dirname}/{}", fmt06::hunk_relpath(*n)));
        }
        for a in &e.addrs {
            if let Some(b) = raw.blocks.get(&a.hash) {
                deps.insert(b.relpath.clone());
            }
        }
        m.insert(e.apath.clone(), deps);
    }
    // restoring an entry needs the directories above it, so it also depends on what they depend on
    let own = m.clone();
    for (p, deps) in m.iter_mut() {
        let mut a: &str = p;
        while a != "/" {
            a = crate::tree::parent_of(a);
            if let Some(ad) = own.get(a) {
                deps.extend(ad.iter().cloned());
            }
        }
    }
    m
}

pub fn damaged_copy(s: &Subject, d: &Damage, seed: u64) -> PathBuf {
    let p = s.world.sc.fresh("dmg");
    fmt06::copy_dir(&s.world.arch, &p);
    apply(&p, d, seed);
    p
}

/// Is the damaged file, as it is now, unreadable for an independent reader (missing, or failing
/// decode / hash)?
pub fn unreadable_now(root: &Path, relpath: &str) -> bool {
    let p = root.join(relpath);
    let Ok(bytes) = std::fs::read(&p) else { return true };
    match path_class(relpath) {
        "block" => match fmt06::snappy_decompress(&bytes) {
            Ok(plain) => fmt06::blake2b_hex(&plain) != relpath.rsplit('/').next().unwrap(),
            Err(_) => true,
        },
        "hunk" => matches!(fmt06::decode_hunk(&bytes), Hunk::Bad(_)),
        "BANDHEAD" | "BANDTAIL" => serde_json::from_slice::<serde_json::Value>(&bytes).is_err(),
        _ => false,
    }
}

pub fn all_damages(root: &Path, bitflips_for_all: bool, n_flips: u64) -> Vec<Damage> {
    let mut v = Vec::new();
    for f in archive_files(root) {
        let pc = path_class(&f);
        for a in [Action::Delete, Action::Truncate0, Action::TruncateHalf, Action::Garbage] {
            if pc == "BANDTAIL" && a == Action::Delete {
                continue;
            }
            v.push(Damage { relpath: f.clone(), action: a });
        }
        if pc == "block" || bitflips_for_all {
            // content lives in blocks: more flips there
            let n = if pc == "block" { n_flips.max(6) } else { n_flips };
            for i in 0..n {
                v.push(Damage { relpath: f.clone(), action: Action::BitFlip(i) });
            }
        }
        if bitflips_for_all && matches!(pc, "hunk" | "BANDHEAD" | "BANDTAIL") {
            for i in 0..(n_flips * 4) {
                v.push(Damage { relpath: f.clone(), action: Action::JsonFlip(i) });
            }
            for k in 0..(if pc == "hunk" { 10 } else { 4 }) {
                v.push(Damage { relpath: f.clone(), action: Action::JsonField(k) });
            }
        }
    }
    v
}

pub fn restore_outcome(arch: &Path, band: u32, dest: &Path) -> cs::Outcome<()> {
    cs::restore(cs::local(arch), Some(band), dest, None, &[], false)
}
