//! Scenarios for fault enumeration: a prior archive history, a new source tree, options;
//! and a driver that replays one backup at every crash point / with every single fault.

use std::collections::{BTreeMap, BTreeSet};
use std::path::{Path, PathBuf};

use conserve::BackupStats;

use crate::cs::{self, Opts, Outcome};
use crate::fmt06;
use crate::history::World;
use crate::icept::{Ev, Icept, Mode, V};
use crate::rng::Rng;
use crate::scratch::Scratch;
use crate::tree::{GenParams, Snapshot};

#[derive(Clone, Copy, Debug, PartialEq, Eq)]
pub enum Prior {
    Empty,
    OneComplete,
    CompleteThenInterrupted,
    TwoComplete,
    /// A complete version, then a backup killed while writing its BANDHEAD, leaving the band
    /// directory with an empty head file (the band exists but cannot be opened).
    CompleteThenTornHead,
    /// A complete version and two interrupted ones on top of each other: the older of the two
    /// got far, the newer stopped early, so the newer one's listing passes through both.
    CompleteThenTwoInterrupted,
}

pub const PRIORS: [Prior; 6] = [
    Prior::Empty,
    Prior::OneComplete,
    Prior::CompleteThenInterrupted,
    Prior::TwoComplete,
    Prior::CompleteThenTornHead,
    Prior::CompleteThenTwoInterrupted,
];

pub struct Scenario {
    pub world: World,
    pub prior: Prior,
    pub opts: Opts,
    /// Snapshot of the new source (what the backup under test sees).
    pub snap: Snapshot,
    /// Complete bands of the prior archive.
    pub prior_complete: BTreeSet<u32>,
    /// band -> source snapshot for the prior bands.
    pub prior_sources: BTreeMap<u32, Snapshot>,
    /// Storage trace of the fault-free backup (on a copy).
    pub trace: Vec<Ev>,
    pub desc: String,
}

impl Scenario {
    pub fn src(&self) -> &Path {
        &self.world.src
    }
    pub fn prior_arch(&self) -> &Path {
        &self.world.arch
    }
    pub fn scratch(&self) -> &Scratch {
        &self.world.sc
    }
    /// The band id the backup under test will create.
    pub fn new_band_id(&self) -> u32 {
        fmt06::read_archive(self.prior_arch(), false)
            .bands
            .keys()
            .max()
            .map(|m| m + 1)
            .unwrap_or(0)
    }

    /// A working copy of the prior archive.
    pub fn work_copy(&self) -> PathBuf {
        let p = self.world.sc.fresh("work");
        fmt06::copy_dir(self.prior_arch(), &p);
        p
    }
}

/// Build a scenario. Options are small so that several hunks, combined-block flushes in the
/// middle of the run and multi-block files all occur.
pub fn build(seed: u64, case: u64, tag: &str) -> Scenario {
    let mut rng = Rng::for_case(seed, case, 3);
    let prior = PRIORS[(case % PRIORS.len() as u64) as usize];
    let opts = Opts {
        hunk: *rng.pick(&[2usize, 3, 5]),
        block: *rng.pick(&[16usize, 64, 200]),
        cap: *rng.pick(&[10u64, 40, 64]),
    };
    let mut p = GenParams::small(opts.block, opts.cap);
    p.target_entries = 9 + rng.below(8) as usize;
    p.max_plain_size = 1024;
    p.max_depth = 3;
    // metadata corner cases belong to C01; keep crash scenarios about structure and content
    p.hostile_mtimes = false;
    p.hostile_modes = false;
    let mut w = World::new(tag, &mut rng, p, seed ^ (case << 8));
    let mut desc = format!("prior={prior:?} {}", opts.label());
    match prior {
        Prior::Empty => {}
        Prior::OneComplete => {
            let r = w.backup(crate::history::random_opts(&mut rng));
            assert!(r.backup.as_ref().unwrap().ok(), "prior backup failed: {}", r.backup.unwrap().describe());
            w.mutate(&mut rng, 4);
        }
        Prior::CompleteThenInterrupted => {
            let r = w.backup(opts);
            assert!(r.backup.as_ref().unwrap().ok(), "prior backup failed");
            w.mutate(&mut rng, 4);
            let n = w.measure_backup(opts);
            // somewhere in the second half, so that some hunks exist
            let k = n / 2 + rng.below((n / 2).max(1) as u64) as usize;
            let r = w.interrupted_backup(opts, k.min(n.saturating_sub(1)), n, false);
            desc.push_str(&format!(" [prior interrupted at {}/{n}, header={}]", k, r.new_band.is_some()));
            w.mutate(&mut rng, 3);
        }
        Prior::CompleteThenTornHead => {
            let r = w.backup(opts);
            assert!(r.backup.as_ref().unwrap().ok(), "prior backup failed");
            w.mutate(&mut rng, 4);
            let trace = w.measure_trace(opts);
            let n = trace.len();
            let k = trace.iter().find(|e| e.verb == V::Write && e.path.ends_with("BANDHEAD")).map(|e| e.idx).expect("BANDHEAD write in trace");
            let r = w.interrupted_backup(opts, k, n, true);
            desc.push_str(&format!(" [prior killed while writing its BANDHEAD (op {k}/{n}): empty head file, header={}]", r.new_band.is_some()));
            w.mutate(&mut rng, 3);
        }
        Prior::CompleteThenTwoInterrupted => {
            // /zrevert as in TwoComplete: A at T1 in the complete version, B at T2 in the first
            // interrupted one (which gets as far as recording it), C with A's size and mtime now
            let put = |w: &mut World, content: &[u8], t: i64| {
                let mut spec = w.spec.clone();
                spec.retain(|p, _| !p.starts_with("/zrevert/"));
                let mut n = crate::tree::Node::file(content.to_vec());
                n.mtime_s = t;
                spec.insert("/zrevert".into(), n);
                w.set_spec(spec);
            };
            put(&mut w, &[b'A'; 70], 1_590_000_000);
            let r = w.backup(opts);
            assert!(r.backup.as_ref().unwrap().ok(), "prior backup failed");
            w.mutate(&mut rng, 3);
            put(&mut w, &[b'B'; 85], 1_590_000_500);
            let trace = w.measure_trace(opts);
            let n = trace.len();
            // killed before its tail is written: everything recorded, not closed
            let k1 = trace.iter().rev().find(|e| e.verb == V::Write && e.path.ends_with("BANDTAIL")).map(|e| e.idx).unwrap_or(n.saturating_sub(1));
            let r1 = w.interrupted_backup(opts, k1, n, false);
            w.mutate(&mut rng, 2);
            let trace = w.measure_trace(opts);
            let n2 = trace.len();
            // killed right after its first hunk
            let k2 = trace.iter().find(|e| e.verb == V::Write && crate::props::c03::path_class(&e.path) == "hunk").map(|e| e.idx + 1).unwrap_or(n2 / 2);
            let r2 = w.interrupted_backup(opts, k2, n2, false);
            desc.push_str(&format!(" [two interrupted priors: killed at {k1}/{n} (header={}) and {k2}/{n2} (header={})]", r1.new_band.is_some(), r2.new_band.is_some()));
            w.mutate(&mut rng, 2);
            put(&mut w, &[b'C'; 70], 1_590_000_000);
        }
        Prior::TwoComplete => {
            // /zrevert: content A at time T1 in the first version, longer content B at T2 in the
            // second, and in the source now content C with the size and mtime it had in the first
            // (a file put back from an old copy): changed with respect to the newest version, and
            // indistinguishable by size and mtime from the one before
            let revert = |w: &mut World, content: &[u8], t: i64| {
                let mut spec = w.spec.clone();
                spec.retain(|p, _| !p.starts_with("/zrevert/"));
                let mut n = crate::tree::Node::file(content.to_vec());
                n.mtime_s = t;
                spec.insert("/zrevert".into(), n);
                w.set_spec(spec);
            };
            revert(&mut w, &[b'A'; 70], 1_590_000_000);
            let r = w.backup(crate::history::random_opts(&mut rng));
            assert!(r.backup.as_ref().unwrap().ok(), "prior backup failed");
            w.mutate(&mut rng, 3);
            revert(&mut w, &[b'B'; 85], 1_590_000_500);
            let r = w.backup(opts);
            assert!(r.backup.as_ref().unwrap().ok(), "prior backup failed");
            w.mutate(&mut rng, 4);
            revert(&mut w, &[b'C'; 70], 1_590_000_000);
        }
    }
    // make sure the new source has small files (combined blocks) and a multi-block file
    {
        use crate::tree::{Node, gen_content};
        let old = w.spec.clone();
        for (i, name) in ["/zs1", "/zs2", "/zs3"].iter().enumerate() {
            if !w.spec.contains_key(*name) {
                let mut n = Node::file(gen_content(&mut rng, 3 + i * 2));
                (n.mtime_s, n.mtime_ns) = w.clock.next(&mut rng);
                w.spec.insert(name.to_string(), n);
            }
        }
        // two files with identical multi-block content: the second is stored by deduplication
        // against blocks the same run has (or has failed to) just written
        if !w.spec.contains_key("/zdup1") {
            let content = gen_content(&mut rng, opts.block + opts.block / 2 + 3);
            for name in ["/zdup1", "/zdup2"] {
                let mut n = Node::file(content.clone());
                (n.mtime_s, n.mtime_ns) = w.clock.next(&mut rng);
                w.spec.insert(name.to_string(), n);
            }
        }
        if !w.spec.contains_key("/zbig") {
            let mut n = Node::file(gen_content(&mut rng, opts.block * 2 + 5));
            (n.mtime_s, n.mtime_ns) = w.clock.next(&mut rng);
            w.spec.insert("/zbig".into(), n);
        }
        crate::tree::sync_to_disk(Some(&old), &w.spec, &w.src).expect("sync");
        w.snap = crate::tree::snapshot(&w.src).expect("snapshot");
    }
    let raw = w.raw(false);
    let prior_complete: BTreeSet<u32> = raw.complete_bands().into_iter().collect();
    let prior_sources = w.sources.clone();
    let snap = w.snap.clone();
    // the fault-free trace, on a copy
    let copy = w.sc.fresh("trace");
    fmt06::copy_dir(&w.arch, &copy);
    let ic = Icept::new(&copy, Mode::Log, 0);
    let out = cs::backup(ic.transport(1), &w.src, opts, &[], None);
    assert!(out.ok(), "fault-free reference backup failed: {}", out.describe());
    let trace = ic.log();
    crate::scratch::rm(&copy);
    Scenario {
        world: w,
        prior,
        opts,
        snap,
        prior_complete,
        prior_sources,
        trace,
        desc,
    }
}

pub struct FaultRun {
    pub arch: PathBuf,
    pub k: usize,
    pub torn: bool,
    pub kind: Option<conserve::transport::ErrorKind>,
    pub outcome: Outcome<BackupStats>,
    pub log: Vec<Ev>,
    pub frozen: bool,
    pub injected: usize,
    pub over_budget: bool,
    /// The operation at which the fault/crash was injected, if reached.
    pub at: Option<Ev>,
}

impl Scenario {
    /// Run the backup under test on a fresh copy of the prior archive with the given mode.
    pub fn run_with(&self, mode: Mode, seed: u64) -> FaultRun {
        let arch = self.work_copy();
        let (k, torn, kind) = match &mode {
            Mode::CrashAt { k, torn } => (*k, *torn, None),
            Mode::FailAt { k, kind } => (*k, false, Some(*kind)),
            Mode::FailAtPair { k, kind, .. } => (*k, false, Some(*kind)),
            _ => (usize::MAX, false, None),
        };
        // 1000x the fault-free length, plus room for conserve's walk down the band numbers
        // (previous_existing_band probes one id at a time: linear in the band id, not a loop)
        let budget = (self.trace.len() + 50) * 1000 + 30 * (self.new_band_id() as usize + 2);
        let ic = Icept::with_budget(&arch, mode, seed, budget);
        let outcome = cs::backup(ic.transport(1), self.src(), self.opts, &[], None);
        let log = ic.log();
        let at = log.iter().find(|e| e.injected).cloned();
        FaultRun {
            arch,
            k,
            torn,
            kind,
            outcome,
            frozen: ic.frozen(),
            injected: ic.injected(),
            over_budget: ic.over_budget(),
            at,
            log,
        }
    }

    /// Indices of write operations in the fault-free trace.
    pub fn write_points(&self) -> Vec<usize> {
        self.trace
            .iter()
            .filter(|e| e.verb == V::Write)
            .map(|e| e.idx)
            .collect()
    }
}
