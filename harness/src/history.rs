//! Histories: a world of (source tree, archive) driven through generated sequences of
//! mutations, backups, interrupted backups, deletes and gcs, with a model of which
//! snapshot each version was made from.

use std::collections::{BTreeMap, BTreeSet};
use std::path::PathBuf;

use conserve::{BackupStats, DeleteStats};

use crate::cs::{self, Opts, Outcome};
use crate::fmt06::{self, FsItem};
use crate::icept::{Ev, Icept, Mode};
use crate::rng::Rng;
use crate::scratch::Scratch;
use crate::tree::{self, Clock, GenParams, GenState, Snapshot};

#[derive(Clone, Copy, Debug, PartialEq, Eq)]
pub enum StepKind {
    Mutate,
    Backup,
    Interrupted,
    Delete,
    Gc,
}

pub struct StepReport {
    pub kind: StepKind,
    pub desc: String,
    pub events: Vec<Ev>,
    pub backup: Option<Outcome<BackupStats>>,
    pub backup_opts: Option<Opts>,
    pub delete: Option<Outcome<DeleteStats>>,
    pub delete_ids: Vec<u32>,
    pub dry_run: bool,
    /// Band created by this step (header exists afterwards).
    pub new_band: Option<u32>,
    /// (k, n, torn) for interrupted backups.
    pub crash: Option<(usize, usize, bool)>,
    /// Did the interceptor freeze (the simulated kill happened)?
    pub frozen: bool,
    /// Archive bytes before the step.
    pub before: BTreeMap<String, FsItem>,
    /// Complete bands before the step.
    pub complete_before: BTreeSet<u32>,
    /// Was the newest band incomplete (or head-less) before the step?
    pub newest_incomplete_before: bool,
}

pub struct World {
    pub sc: Scratch,
    pub src: PathBuf,
    pub arch: PathBuf,
    pub spec: Snapshot,
    /// Snapshot of the source as it is on disk now.
    pub snap: Snapshot,
    pub clock: Clock,
    pub graveyard: Vec<Vec<u8>>,
    pub gen_state: GenState,
    pub params: GenParams,
    /// band id -> snapshot of the source when that backup ran (every band whose backup was
    /// started, complete or not), removed when the band is deleted.
    pub sources: BTreeMap<u32, Snapshot>,
    pub seed: u64,
    pub steps_done: usize,
    pub log_seed: u64,
    /// The id the first version is moved to right after it was written: the state an archive is
    /// in after that many earlier versions were made and deleted again. Lets short histories
    /// cross b0009/b0010, b0099/b0100 and above all b9999/b10000, where zero padding ends.
    pub first_band: u32,
}

pub const H_HUNKS: [usize; 6] = [1, 2, 3, 5, 8, 100_000];
pub const H_BLOCKS: [usize; 4] = [7, 64, 1000, 4096];
pub const H_CAPS: [u64; 5] = [0, 1, 10, 64, 4096];

pub fn random_opts(rng: &mut Rng) -> Opts {
    Opts {
        hunk: *rng.pick(&H_HUNKS),
        block: *rng.pick(&H_BLOCKS),
        cap: *rng.pick(&H_CAPS),
    }
}

impl World {
    pub fn new(tag: &str, rng: &mut Rng, params: GenParams, seed: u64) -> World {
        let sc = Scratch::new(tag);
        let src = sc.join("src");
        let arch = sc.join("arch");
        cs::create_archive(&arch);
        let mut gen_state = GenState {
            mode_cursor: rng.below(4096) as u32,
        };
        let spec = tree::gen_tree(rng, &params, &mut gen_state);
        tree::sync_to_disk(None, &spec, &src).expect("materialise");
        let snap = tree::snapshot(&src).expect("snapshot");
        let band_numbers_to_99998 = params.band_numbers_to_99998;
        World {
            sc,
            src,
            arch,
            spec,
            snap,
            clock: Clock::new(),
            graveyard: Vec::new(),
            gen_state,
            params,
            sources: BTreeMap::new(),
            seed,
            steps_done: 0,
            log_seed: seed,
            first_band: {
                let fb = *rng.pick(&[0u32, 0, 0, 0, 8, 98, 998, 9997, 9998, 9998, 99_998]);
                if fb == 99_998 && !band_numbers_to_99998 { 9998 } else { fb }
            },
        }
    }

    /// A world whose source is the given tree (band numbering starts at b0000).
    pub fn with_spec(tag: &str, spec: Snapshot, params: GenParams, seed: u64) -> World {
        let sc = Scratch::new(tag);
        let src = sc.join("src");
        let arch = sc.join("arch");
        cs::create_archive(&arch);
        tree::sync_to_disk(None, &spec, &src).expect("materialise");
        let snap = tree::snapshot(&src).expect("snapshot");
        World {
            sc,
            src,
            arch,
            spec,
            snap,
            clock: Clock::new(),
            graveyard: Vec::new(),
            gen_state: GenState { mode_cursor: 0 },
            params,
            sources: BTreeMap::new(),
            seed,
            steps_done: 0,
            log_seed: seed,
            first_band: 0,
        }
    }

    /// Make the source a wide and deep tree (see [tree::add_wide_and_deep]).
    pub fn widen(&mut self, rng: &mut Rng) {
        let mut spec = self.spec.clone();
        tree::add_wide_and_deep(&mut spec, rng, self.params.block, self.params.max_plain_size.min(400));
        self.set_spec(spec);
    }

    /// Replace the source tree.
    pub fn set_spec(&mut self, spec: Snapshot) {
        let old = std::mem::replace(&mut self.spec, spec);
        tree::sync_to_disk(Some(&old), &self.spec, &self.src).expect("sync source");
        self.snap = tree::snapshot(&self.src).expect("snapshot");
    }

    pub fn raw(&self, with_blocks: bool) -> fmt06::Raw {
        fmt06::read_archive(&self.arch, with_blocks)
    }

    pub fn complete_bands(&self) -> BTreeSet<u32> {
        self.raw(false).complete_bands().into_iter().collect()
    }

    fn report(&self, kind: StepKind, desc: String) -> StepReport {
        let raw = self.raw(false);
        let newest = raw.bands.keys().max().copied();
        let newest_incomplete = newest
            .map(|b| {
                let band = &raw.bands[&b];
                !(band.has_head() && band.complete())
            })
            .unwrap_or(false);
        StepReport {
            kind,
            desc,
            events: Vec::new(),
            backup: None,
            backup_opts: None,
            delete: None,
            delete_ids: Vec::new(),
            dry_run: false,
            new_band: None,
            crash: None,
            frozen: false,
            before: fmt06::dir_bytes(&self.arch),
            complete_before: raw.complete_bands().into_iter().collect(),
            newest_incomplete_before: newest_incomplete,
        }
    }

    pub fn mutate(&mut self, rng: &mut Rng, n: usize) -> StepReport {
        let mut descs = Vec::new();
        let old = self.spec.clone();
        for _ in 0..n {
            descs.push(tree::mutate(
                rng,
                &mut self.spec,
                &mut self.clock,
                &self.params,
                &mut self.gen_state,
                &mut self.graveyard,
            ));
        }
        if self.graveyard.len() > 40 {
            let drop = self.graveyard.len() - 40;
            self.graveyard.drain(..drop);
        }
        tree::sync_to_disk(Some(&old), &self.spec, &self.src).expect("sync source");
        self.snap = tree::snapshot(&self.src).expect("snapshot");
        self.steps_done += 1;
        self.report(StepKind::Mutate, format!("mutate: {}", descs.join(", ")))
    }

    fn next_log_seed(&mut self) -> u64 {
        self.log_seed = self.log_seed.wrapping_mul(6364136223846793005).wrapping_add(1442695040888963407);
        self.log_seed
    }

    /// A fault-free backup, logged.
    pub fn backup(&mut self, o: Opts) -> StepReport {
        let mut rep = self.report(StepKind::Backup, format!("backup {}", o.label()));
        let before_ids: BTreeSet<u32> = self.raw(false).bands.keys().copied().collect();
        let seed = self.next_log_seed();
        let ic = Icept::new(&self.arch, Mode::Log, seed);
        let out = cs::backup(ic.transport(1), &self.src, o, &[], None);
        rep.events = ic.log();
        rep.backup_opts = Some(o);
        let after = self.raw(false);
        rep.new_band = after
            .bands
            .iter()
            .filter(|(id, b)| !before_ids.contains(id) && b.head_raw.is_some())
            .map(|(id, _)| *id)
            .max();
        if let Some(b) = rep.new_band {
            if self.sources.is_empty() && b == 0 && self.first_band > 0 && out.ok() && after.bands.len() == 1 {
                // fast-forward the band numbering
                let to = self.first_band;
                std::fs::rename(self.arch.join(fmt06::band_dirname(0)), self.arch.join(fmt06::band_dirname(to))).expect("rename band");
                rep.new_band = Some(to);
                rep.desc.push_str(&format!(" [first version moved to b{to:04}]"));
                self.sources.insert(to, self.snap.clone());
            } else {
                self.sources.insert(b, self.snap.clone());
            }
        }
        rep.backup = Some(out);
        self.steps_done += 1;
        rep
    }

    /// The storage trace this backup would have, measured on a copy of the archive.
    pub fn measure_trace(&mut self, o: Opts) -> Vec<Ev> {
        let copy = self.sc.fresh("probe");
        fmt06::copy_dir(&self.arch, &copy);
        let ic = Icept::new(&copy, Mode::Log, 0);
        let _ = cs::backup(ic.transport(1), &self.src, o, &[], None);
        let log = ic.log();
        crate::scratch::rm(&copy);
        log
    }

    pub fn measure_backup(&mut self, o: Opts) -> usize {
        self.measure_trace(o).len()
    }

    /// A backup that is killed before storage operation k (optionally leaving the torn file).
    pub fn interrupted_backup(&mut self, o: Opts, k: usize, n: usize, torn: bool) -> StepReport {
        let mut rep = self.report(
            StepKind::Interrupted,
            format!("backup {} killed before op {k}/{n}{}", o.label(), if torn { " (torn)" } else { "" }),
        );
        let before_ids: BTreeSet<u32> = self.raw(false).bands.keys().copied().collect();
        let seed = self.next_log_seed();
        let ic = Icept::new(&self.arch, Mode::CrashAt { k, torn }, seed);
        let out = cs::backup(ic.transport(1), &self.src, o, &[], None);
        rep.events = ic.log();
        rep.backup_opts = Some(o);
        rep.crash = Some((k, n, torn));
        rep.frozen = ic.frozen();
        let after = self.raw(false);
        rep.new_band = after
            .bands
            .iter()
            .filter(|(id, b)| !before_ids.contains(id) && b.head_raw.is_some())
            .map(|(id, _)| *id)
            .max();
        if let Some(b) = rep.new_band {
            self.sources.insert(b, self.snap.clone());
        }
        rep.backup = Some(out);
        self.steps_done += 1;
        rep
    }

    /// A backup that its caller stops: the change callback fails at its `after`-th call. Like a
    /// killed backup it must not leave a version that counts as complete.
    pub fn backup_stopped_by_caller(&mut self, o: Opts, after: usize) -> StepReport {
        let mut rep = self.report(StepKind::Interrupted, format!("backup {} stopped by its caller at entry {after} (change callback fails)", o.label()));
        let before_ids: BTreeSet<u32> = self.raw(false).bands.keys().copied().collect();
        let out = cs::backup_stopped_by_caller(cs::local(&self.arch), &self.src, o, after);
        rep.backup_opts = Some(o);
        rep.crash = Some((after, after + 1, false));
        let after_raw = self.raw(false);
        rep.new_band = after_raw.bands.iter().filter(|(id, b)| !before_ids.contains(id) && b.head_raw.is_some()).map(|(id, _)| *id).max();
        if let Some(b) = rep.new_band {
            self.sources.insert(b, self.snap.clone());
        }
        rep.backup = Some(out);
        self.steps_done += 1;
        rep
    }

    /// delete_bands(ids) (ids empty = gc), logged.
    pub fn delete(&mut self, ids: &[u32], dry_run: bool) -> StepReport {
        let kind = if ids.is_empty() { StepKind::Gc } else { StepKind::Delete };
        let mut rep = self.report(
            kind,
            format!("{} {:?}{}", if ids.is_empty() { "gc" } else { "delete" }, ids, if dry_run { " (dry run)" } else { "" }),
        );
        let seed = self.next_log_seed();
        let ic = Icept::new(&self.arch, Mode::Log, seed);
        let out = cs::delete(ic.transport(2), &self.arch, ids, dry_run, false);
        rep.events = ic.log();
        rep.delete_ids = ids.to_vec();
        rep.dry_run = dry_run;
        if out.ok() && !dry_run {
            for id in ids {
                self.sources.remove(id);
            }
        }
        rep.delete = Some(out);
        self.steps_done += 1;
        rep
    }

    /// One random step of a history.
    pub fn random_step(&mut self, rng: &mut Rng) -> StepReport {
        let roll = rng.below(100);
        let raw = self.raw(false);
        let existing: Vec<u32> = raw.bands.keys().copied().collect();
        if self.sources.is_empty() || roll < 30 {
            if self.steps_done > 0 && roll < 30 {
                let n = 1 + rng.below(4) as usize;
                return self.mutate(rng, n);
            }
            return self.backup(random_opts(rng));
        }
        if roll < 60 {
            self.backup(random_opts(rng))
        } else if roll < 74 {
            let o = random_opts(rng);
            let n = self.measure_backup(o);
            let k = rng.below(n as u64 + 1) as usize;
            self.interrupted_backup(o, k, n, false)
        } else if roll < 90 {
            // delete a random subset (possibly all, never empty here)
            let mut ids: Vec<u32> = existing.iter().copied().filter(|_| rng.chance(1, 3)).collect();
            if ids.is_empty() {
                ids.push(*rng.pick(&existing));
            }
            let dry = rng.chance(1, 5);
            self.delete(&ids, dry)
        } else {
            let dry = rng.chance(1, 5);
            self.delete(&[], dry)
        }
    }
}

/// Options under which [many_hunks_world] gives a band of more than 10 000 index hunks.
pub const MANY_HUNKS_OPTS: Opts = Opts { hunk: 1, block: 64, cap: 16 };

/// A flat tree of 10 040 small files: with one entry per hunk its index crosses from the hunk
/// subdirectory i/00000 into i/00001 (HUNKS_PER_SUBDIR), and its few hundred combined blocks
/// are referenced from hunks on both sides of that boundary.
pub fn many_hunks_world(tag: &str, seed: u64) -> World {
    let mut spec = Snapshot::new();
    spec.insert("/".into(), tree::Node::dir());
    for i in 0..10_040u32 {
        let len = 1 + (i % 5) as usize;
        let content: Vec<u8> = (0..len).map(|j| (seed as u32 ^ i.wrapping_mul(2654435761) >> (j * 5)) as u8).collect();
        let mut n = tree::Node::file(content);
        n.mtime_s = 1_600_000_000 + i as i64;
        spec.insert(format!("/f{i:05}"), n);
    }
    World::with_spec(tag, spec, GenParams::small(64, 16), seed)
}
