//! Driving the real conserve library: each call opens the archive afresh on the given
//! transport (as a new process would), runs on its own current-thread tokio runtime, and is
//! guarded against panics.

use std::path::Path;
use std::sync::{Arc, Mutex};

use conserve::monitor::test::TestMonitor;
use conserve::transport::Transport;
use conserve::{
    Apath, Archive, BackupOptions, BackupStats, BandId, BandSelectionPolicy, DeleteOptions,
    DeleteStats, EntryChange, Exclude, RestoreOptions, ValidateOptions,
};

use crate::report::guard;

#[derive(Clone, Copy, Debug, PartialEq, Eq, Hash)]
pub struct Opts {
    pub hunk: usize,
    pub block: usize,
    pub cap: u64,
}

impl Opts {
    pub const DEFAULT: Opts = Opts {
        hunk: 100_000,
        block: 20 << 20,
        cap: 1 << 20,
    };
    pub fn label(&self) -> String {
        format!("hunk={} block={} cap={}", self.hunk, self.block, self.cap)
    }
}

pub const HUNKS: [usize; 6] = [1, 2, 3, 5, 8, 100_000];
pub const BLOCKS: [usize; 6] = [1, 7, 64, 1000, 4096, 20 << 20];
pub const CAPS: [u64; 6] = [0, 1, 10, 64, 4096, 1 << 20];

pub fn all_opts() -> Vec<Opts> {
    let mut v = Vec::new();
    for h in HUNKS {
        for b in BLOCKS {
            for c in CAPS {
                v.push(Opts {
                    hunk: h,
                    block: b,
                    cap: c,
                });
            }
        }
    }
    v
}

thread_local! {
    static RT: std::cell::RefCell<Option<tokio::runtime::Runtime>> = const { std::cell::RefCell::new(None) };
}

/// Run a future on this thread's current-thread runtime. The runtime is reused between calls
/// (creating one, with its blocking pool, per call dominated the cost of small cases); it is
/// taken out while in use, so a panic unwinding through here drops it and the next call
/// starts with a fresh one.
pub fn block_on<F: std::future::Future>(f: F) -> F::Output {
    let workers = WORKERS.with(|w| w.get());
    if workers > 0 {
        // multi-thread flavour, fresh per call
        let trace = TRACE_HERE.with(|t| t.get());
        let rt = tokio::runtime::Builder::new_multi_thread()
            .worker_threads(workers)
            .on_thread_start(move || TRACE_HERE.with(|t| t.set(trace)))
            .enable_all()
            .build()
            .expect("runtime");
        return rt.block_on(f);
    }
    let rt = RT.with(|r| r.borrow_mut().take()).unwrap_or_else(|| {
        tokio::runtime::Builder::new_current_thread()
            .enable_all()
            .build()
            .expect("runtime")
    });
    let out = rt.block_on(f);
    RT.with(|r| *r.borrow_mut() = Some(rt));
    out
}

thread_local! {
    static LINGER: std::cell::Cell<bool> = const { std::cell::Cell::new(false) };
    static TRACE_HERE: std::cell::Cell<bool> = const { std::cell::Cell::new(false) };
}

/// A `tracing` subscriber that takes everything down to TRACE level -- on the threads where
/// [with_trace] switched it on -- and throws it away: what `conserve -D` or an embedding
/// program's trace logging enables. Field expressions of `trace!(..)` calls are evaluated only
/// where it is on.
struct TraceSink;

impl tracing::Subscriber for TraceSink {
    fn register_callsite(&self, _: &'static tracing::Metadata<'static>) -> tracing::subscriber::Interest {
        tracing::subscriber::Interest::sometimes()
    }
    fn enabled(&self, _: &tracing::Metadata<'_>) -> bool {
        TRACE_HERE.with(|t| t.get())
    }
    fn max_level_hint(&self) -> Option<tracing::level_filters::LevelFilter> {
        Some(tracing::level_filters::LevelFilter::TRACE)
    }
    fn new_span(&self, _: &tracing::span::Attributes<'_>) -> tracing::span::Id {
        tracing::span::Id::from_u64(1)
    }
    fn record(&self, _: &tracing::span::Id, _: &tracing::span::Record<'_>) {}
    fn record_follows_from(&self, _: &tracing::span::Id, _: &tracing::span::Id) {}
    fn event(&self, _: &tracing::Event<'_>) {
        TRACE_EVENTS.fetch_add(1, std::sync::atomic::Ordering::Relaxed);
    }
    fn enter(&self, _: &tracing::span::Id) {}
    fn exit(&self, _: &tracing::span::Id) {}
}

pub static TRACE_EVENTS: std::sync::atomic::AtomicU64 = std::sync::atomic::AtomicU64::new(0);

/// Install the sink for this process (once; nothing is enabled until [with_trace] says so).
pub fn install_trace_sink() {
    let _ = tracing::subscriber::set_global_default(TraceSink);
}

/// Run `f` with trace-level diagnostics switched on for this thread and for the threads of
/// every runtime built inside.
pub fn with_trace<T>(on: bool, f: impl FnOnce() -> T) -> T {
    let old = TRACE_HERE.with(|t| t.replace(on));
    let r = f();
    TRACE_HERE.with(|t| t.set(old));
    r
}

/// Run `f` with delete/gc calls keeping their runtime alive for a few milliseconds after the
/// operation returns (instead of the default process-exit semantics).
pub fn with_linger<T>(f: impl FnOnce() -> T) -> T {
    let old = LINGER.with(|l| l.replace(true));
    let r = f();
    LINGER.with(|l| l.set(old));
    r
}

/// Like block_on, but on a runtime created for this call and dropped right after it.
pub fn block_on_fresh<F: std::future::Future>(f: F) -> F::Output {
    let workers = WORKERS.with(|w| w.get());
    let rt = if workers > 0 {
        let trace = TRACE_HERE.with(|t| t.get());
        tokio::runtime::Builder::new_multi_thread().worker_threads(workers).on_thread_start(move || TRACE_HERE.with(|t| t.set(trace))).enable_all().build()
    } else {
        tokio::runtime::Builder::new_current_thread().enable_all().build()
    }
    .expect("runtime");
    rt.block_on(f)
}

thread_local! {
    static WORKERS: std::cell::Cell<usize> = const { std::cell::Cell::new(0) };
}

/// Run `f` with conserve calls on this thread using a multi-thread runtime with `workers`
/// worker threads (0 = the default current-thread runtime).
pub fn with_workers<T>(workers: usize, f: impl FnOnce() -> T) -> T {
    let old = WORKERS.with(|w| w.replace(workers));
    let r = f();
    WORKERS.with(|w| w.set(old));
    r
}

pub fn local(path: &Path) -> Transport {
    Transport::local(path)
}

pub fn exclude(globs: &[String]) -> Exclude {
    if globs.is_empty() {
        Exclude::nothing()
    } else {
        Exclude::from_strings(globs).expect("exclude patterns")
    }
}

/// Outcome of an operation: Err(panic message) | Ok(library result as Result<T, String>),
/// plus the non-fatal errors reported to the monitor.
#[derive(Debug, Clone)]
pub struct Outcome<T> {
    pub panic: Option<String>,
    pub result: Option<Result<T, String>>,
    pub errors: Vec<String>,
}

impl<T> Outcome<T> {
    pub fn ok(&self) -> bool {
        self.panic.is_none() && matches!(self.result, Some(Ok(_)))
    }
    /// Ok and nothing reported.
    pub fn clean(&self) -> bool {
        self.ok() && self.errors.is_empty()
    }
    pub fn value(&self) -> Option<&T> {
        match &self.result {
            Some(Ok(v)) => Some(v),
            _ => None,
        }
    }
    pub fn describe(&self) -> String {
        if let Some(p) = &self.panic {
            return format!("PANIC {p}");
        }
        let r = match &self.result {
            Some(Ok(_)) => "Ok".to_string(),
            Some(Err(e)) => format!("Err({e})"),
            None => "none".into(),
        };
        if self.errors.is_empty() {
            r
        } else {
            format!("{r} + {} monitor errors [{}]", self.errors.len(), self.errors[..self.errors.len().min(3)].join(" | "))
        }
    }
}

fn run<T>(f: impl FnOnce(Arc<TestMonitor>) -> Result<T, String>) -> Outcome<T> {
    let monitor = TestMonitor::arc();
    let m2 = monitor.clone();
    let r = guard(move || f(m2));
    let errors = monitor
        .take_errors()
        .into_iter()
        .map(|e| format!("{e}: {e:?}").chars().take(300).collect())
        .collect();
    match r {
        Ok(res) => Outcome {
            panic: None,
            result: Some(res),
            errors,
        },
        Err(p) => Outcome {
            panic: Some(p),
            result: None,
            errors,
        },
    }
}

thread_local! {
    static HOLD: std::cell::Cell<bool> = const { std::cell::Cell::new(false) };
    static HELD: std::cell::RefCell<Option<Archive>> = const { std::cell::RefCell::new(None) };
}

/// From now on (on this thread) every operation goes through one `Archive` handle, opened by the
/// first of them and kept -- what a long-running program using the library does -- instead of
/// opening the archive afresh for each operation as the command-line tool does.
pub fn hold_handle(on: bool) {
    HOLD.with(|h| h.set(on));
    if !on {
        HELD.with(|h| *h.borrow_mut() = None);
    }
}

pub async fn open_archive(t: Transport) -> Result<Archive, String> {
    if HOLD.with(|h| h.get()) {
        if let Some(a) = HELD.with(|h| h.borrow().clone()) {
            return Ok(a);
        }
        let a = Archive::open(t).await.map_err(errstr)?;
        HELD.with(|h| *h.borrow_mut() = Some(a.clone()));
        return Ok(a);
    }
    Archive::open(t).await.map_err(errstr)
}

thread_local! {
    static HOLD_SRC: std::cell::Cell<bool> = const { std::cell::Cell::new(false) };
    static HELD_SRC: std::cell::RefCell<Option<(std::path::PathBuf, conserve::SourceTree)>> = const { std::cell::RefCell::new(None) };
}

/// From now on (on this thread) every diff of one source directory goes through one `SourceTree`
/// handle, opened by the first of them and kept while the directory changes underneath.
pub fn hold_source(on: bool) {
    HOLD_SRC.with(|h| h.set(on));
    if !on {
        HELD_SRC.with(|h| *h.borrow_mut() = None);
    }
}

fn open_source(src: &Path) -> Result<conserve::SourceTree, String> {
    if HOLD_SRC.with(|h| h.get()) {
        if let Some((p, t)) = HELD_SRC.with(|h| h.borrow().clone()) {
            if p == src {
                return Ok(t);
            }
        }
        let t = conserve::SourceTree::open(src).map_err(errstr)?;
        HELD_SRC.with(|h| *h.borrow_mut() = Some((src.to_path_buf(), t.clone())));
        return Ok(t);
    }
    conserve::SourceTree::open(src).map_err(errstr)
}

pub fn errstr(e: conserve::Error) -> String {
    format!("{e}: {e:?}").chars().take(400).collect()
}

pub fn create_archive(path: &Path) {
    block_on(async { Archive::create(local(path)).await }).expect("create archive");
}

thread_local! {
    static NO_OWNER: std::cell::Cell<bool> = const { std::cell::Cell::new(false) };
}

/// Run `f` with backups on this thread not recording owners (BackupOptions::owner = false).
pub fn without_owner<T>(f: impl FnOnce() -> T) -> T {
    let old = NO_OWNER.with(|n| n.replace(true));
    let r = f();
    NO_OWNER.with(|n| n.set(old));
    r
}

pub type Changes = Arc<Mutex<Vec<(String, char)>>>;

pub fn backup_opts(o: Opts, excl: &[String], changes: Option<Changes>) -> BackupOptions {
    BackupOptions {
        exclude: exclude(excl),
        max_entries_per_hunk: o.hunk,
        max_block_size: o.block,
        small_file_cap: o.cap,
        change_callback: changes.map(|c| {
            Box::new(move |ch: &EntryChange| {
                c.lock().unwrap().push((ch.apath.to_string(), ch.change.sigil()));
                Ok(())
            }) as conserve::ChangeCallback
        }),
        owner: !NO_OWNER.with(|n| n.get()),
    }
}

pub fn backup(t: Transport, src: &Path, o: Opts, excl: &[String], changes: Option<Changes>) -> Outcome<BackupStats> {
    let src = src.to_path_buf();
    let excl = excl.to_vec();
    run(move |monitor| {
        block_on(async {
            let archive = open_archive(t).await?;
            let options = backup_opts(o, &excl, changes);
            conserve::backup(&archive, &src, &options, monitor)
                .await
                .map_err(errstr)
        })
    })
}

/// A backup during which `cb` is called with the apath of every entry as it is recorded (the
/// source can be changed from there, underneath the running backup).
pub fn backup_cb(t: Transport, src: &Path, o: Opts, cb: Arc<dyn Fn(&str) + Send + Sync>) -> Outcome<BackupStats> {
    let src = src.to_path_buf();
    run(move |monitor| {
        block_on(async {
            let archive = open_archive(t).await?;
            let mut options = backup_opts(o, &[], None);
            options.change_callback = Some(Box::new(move |ch: &EntryChange| {
                cb(&ch.apath);
                Ok(())
            }) as conserve::ChangeCallback);
            conserve::backup(&archive, &src, &options, monitor)
                .await
                .map_err(errstr)
        })
    })
}

/// As a band number: "the latest band, complete or not" (BandSelectionPolicy::Latest).
pub const LATEST: u32 = u32::MAX;

/// A backup whose caller gives up: the change callback returns an error at its `after`-th call
/// (what the command-line tool does when it cannot write its change report).
pub fn backup_stopped_by_caller(t: Transport, src: &Path, o: Opts, after: usize) -> Outcome<BackupStats> {
    let src = src.to_path_buf();
    run(move |monitor| {
        block_on(async {
            let archive = open_archive(t).await?;
            let mut options = backup_opts(o, &[], None);
            let calls = std::sync::atomic::AtomicUsize::new(0);
            options.change_callback = Some(Box::new(move |_ch: &EntryChange| {
                if calls.fetch_add(1, std::sync::atomic::Ordering::SeqCst) + 1 >= after {
                    Err(conserve::Error::NotImplemented)
                } else {
                    Ok(())
                }
            }) as conserve::ChangeCallback);
            conserve::backup(&archive, &src, &options, monitor)
                .await
                .map_err(errstr)
        })
    })
}

pub fn sel(band: Option<u32>) -> BandSelectionPolicy {
    match band {
        Some(LATEST) => BandSelectionPolicy::Latest,
        Some(b) => BandSelectionPolicy::Specified(BandId::new(&[b])),
        None => BandSelectionPolicy::LatestClosed,
    }
}

pub fn restore(
    t: Transport,
    band: Option<u32>,
    dest: &Path,
    subtree: Option<&str>,
    excl: &[String],
    overwrite: bool,
) -> Outcome<()> {
    let dest = dest.to_path_buf();
    let excl = excl.to_vec();
    let subtree = subtree.map(String::from);
    run(move |monitor| {
        block_on(async {
            let archive = open_archive(t).await?;
            let options = RestoreOptions {
                exclude: exclude(&excl),
                only_subtree: subtree.map(|s| s.parse::<Apath>().expect("valid subtree")),
                overwrite,
                band_selection: sel(band),
                change_callback: None,
                inject_failures: Default::default(),
            };
            conserve::restore(&archive, &dest, options, monitor)
                .await
                .map_err(errstr)
        })
    })
}

/// A listed entry as conserve reports it.
#[derive(Clone, Debug, PartialEq, Eq)]
pub struct Listed {
    pub apath: String,
    pub kind: String,
    pub target: Option<String>,
    pub size: Option<u64>,
    pub mtime: (i64, u32),
    pub addrs: Vec<(String, u64, u64)>,
}

pub fn list(t: Transport, band: Option<u32>, subtree: &str, excl: &[String]) -> Outcome<Vec<Listed>> {
    let excl = excl.to_vec();
    let subtree = subtree.to_string();
    run(move |monitor| {
        block_on(async {
            use conserve::EntryTrait;
            let archive = open_archive(t).await?;
            let mut stitch = archive
                .iter_entries(
                    sel(band),
                    subtree.parse::<Apath>().map_err(|_| "invalid subtree".to_string())?,
                    exclude(&excl),
                    monitor,
                )
                .await
                .map_err(errstr)?;
            let mut v = Vec::new();
            while let Some(e) = stitch.next().await {
                v.push(Listed {
                    apath: e.apath.to_string(),
                    kind: format!("{:?}", e.kind()),
                    target: e.target.clone(),
                    size: if e.kind() == conserve::Kind::File { e.size() } else { None },
                    mtime: (e.mtime, e.mtime_nanos),
                    addrs: e
                        .addrs
                        .iter()
                        .map(|a| (a.hash.to_string(), a.start, a.len))
                        .collect(),
                });
            }
            Ok(v)
        })
    })
}

/// delete_bands. Runs on a runtime of its own that is dropped as soon as the call returns, which
/// is what a process that exits after the command does: a lock-release task spawned from Drop
/// on an error path then never gets to run (conserve's own comment: "hopefully ... before the
/// process exits"). Nothing waits for such tasks.
pub fn delete(t: Transport, _root: &Path, bands: &[u32], dry_run: bool, break_lock: bool) -> Outcome<DeleteStats> {
    let ids: Vec<BandId> = bands.iter().map(|b| BandId::new(&[*b])).collect();
    run(move |monitor| {
        let linger = LINGER.with(|l| l.get());
        block_on_fresh(async {
            let archive = open_archive(t).await?;
            let r = archive
                .delete_bands(&ids, &DeleteOptions { dry_run, break_lock }, monitor)
                .await
                .map_err(errstr);
            if linger {
                // a caller that keeps its runtime alive (a library user, or a process that
                // does a little more before exiting): tasks spawned from Drop get to run
                for _ in 0..5 {
                    tokio::task::yield_now().await;
                }
                tokio::time::sleep(std::time::Duration::from_millis(3)).await;
            }
            r
        })
    })
}

pub fn validate(t: Transport, skip_block_hashes: bool) -> Outcome<()> {
    run(move |monitor| {
        block_on(async {
            let archive = open_archive(t).await?;
            archive
                .validate(&ValidateOptions { skip_block_hashes }, monitor)
                .await
                .map_err(errstr)
        })
    })
}

pub fn list_bands(t: Transport) -> Outcome<Vec<u32>> {
    run(move |_monitor| {
        block_on(async {
            let archive = open_archive(t).await?;
            let ids = archive.list_band_ids().await.map_err(errstr)?;
            Ok(ids
                .into_iter()
                .map(|b| b.to_string().trim_start_matches('b').parse::<u32>().unwrap())
                .collect())
        })
    })
}

pub fn band_closed(t: Transport, band: u32) -> Outcome<bool> {
    run(move |_monitor| {
        block_on(async {
            let archive = open_archive(t).await?;
            archive
                .band_is_closed(BandId::new(&[band]))
                .await
                .map_err(errstr)
        })
    })
}

/// diff(version, source tree): (apath, sigil) in the order reported.
pub fn diff(t: Transport, band: Option<u32>, src: &Path, include_unchanged: bool, excl: &[String]) -> Outcome<Vec<(String, char)>> {
    let src = src.to_path_buf();
    let excl = excl.to_vec();
    run(move |monitor| {
        block_on(async {
            let archive = open_archive(t).await?;
            let st = archive.open_stored_tree(sel(band)).await.map_err(errstr)?;
            let lt = open_source(&src)?;
            let options = conserve::DiffOptions {
                exclude: exclude(&excl),
                include_unchanged,
            };
            let mut d = conserve::diff(&st, &lt, options, monitor).await.map_err(errstr)?;
            let mut v = Vec::new();
            while let Some(c) = d.next().await {
                v.push((c.apath.to_string(), c.change.sigil()));
            }
            Ok(v)
        })
    })
}
