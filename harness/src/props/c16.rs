//! C16 — restore stays inside its destination and never clobbers by default.

use std::collections::BTreeMap;
use std::os::unix::fs::MetadataExt;
use std::path::{Path, PathBuf};

use serde_json::{Value, json};

use crate::cs::{self, Opts};
use crate::fmt06;
use crate::icept::{Icept, Mode, V};
use crate::report::{Run, Tier, panic_site};
use crate::rng::{Rng, fnv};
use crate::scratch::Scratch;
use crate::tree::{self, Kind, Node, Snapshot, child_of, gen_content};

/// lstat + content of everything below `root`, including ctime (a chmod/chown/utimes through
/// a link changes the target's ctime even if the values stay the same), excluding atime.
type Watch = BTreeMap<String, String>;

fn watch(root: &Path) -> Watch {
    fn walk(m: &mut Watch, p: &Path, rel: &str) {
        let Ok(md) = std::fs::symlink_metadata(p) else { return };
        let ft = md.file_type();
        let body = if ft.is_symlink() {
            format!("-> {:?}", std::fs::read_link(p).ok())
        } else if ft.is_dir() {
            "dir".to_string()
        } else {
            format!("{:x}", crate::rng::fnv(&std::fs::read(p).unwrap_or_default()))
        };
        m.insert(
            rel.to_string(),
            format!(
                "{body} mode={:o} uid={} gid={} size={} mtime={}.{} ctime={}.{}",
                md.mode(),
                md.uid(),
                md.gid(),
                if ft.is_dir() { 0 } else { md.size() },
                md.mtime(),
                md.mtime_nsec(),
                md.ctime(),
                md.ctime_nsec()
            ),
        );
        if ft.is_dir() {
            if let Ok(rd) = std::fs::read_dir(p) {
                for e in rd.flatten() {
                    let name = e.file_name().to_string_lossy().into_owned();
                    walk(m, &e.path(), &format!("{rel}/{name}"));
                }
            }
        }
    }
    let mut m = Watch::new();
    walk(&mut m, root, "");
    m
}

fn first_diff(a: &Watch, b: &Watch) -> Option<String> {
    for (k, v) in a {
        match b.get(k) {
            None => return Some(format!("{k:?} disappeared")),
            Some(w) if w != v => return Some(format!("{k:?} changed: {v} => {w}")),
            _ => {}
        }
    }
    for k in b.keys() {
        if !a.contains_key(k) {
            return Some(format!("{k:?} appeared"));
        }
    }
    None
}

struct Sandbox {
    sc: Scratch,
    outside: PathBuf,
    src: PathBuf,
    work: PathBuf,
}

fn sandbox(tag: &str) -> Sandbox {
    let sc = Scratch::new(tag);
    let outside = sc.join("outside");
    std::fs::create_dir_all(outside.join("dir/sub")).unwrap();
    std::fs::write(outside.join("file"), b"sentinel file").unwrap();
    std::fs::write(outside.join("dir/f"), b"sentinel f").unwrap();
    std::fs::write(outside.join("dir/g"), b"sentinel g").unwrap();
    std::fs::write(outside.join("dir/sub/h"), b"sentinel h").unwrap();
    let work = sc.join("work");
    std::fs::create_dir_all(&work).unwrap();
    let src = work.join("src");
    Sandbox { sc, outside, src, work }
}

fn link_targets(sb: &Sandbox) -> Vec<String> {
    let abs = sb.outside.to_string_lossy().into_owned();
    vec![
        "../outside/file".into(),
        "../outside/dir".into(),
        "../../outside/file".into(),
        "../../outside/dir".into(),
        "../../outside/dir/sub".into(),
        "../../../outside/dir".into(),
        format!("{abs}/file"),
        format!("{abs}/dir"),
        format!("{abs}/dir/f"),
        "..".into(),
        "../..".into(),
        ".".into(),
        "/".into(),
        "/etc/hostname".into(),
        "nonexistent".into(),
        // dangling, but the directory it would be created in exists beside the destination
        "../outside/dir/absent".into(),
        "../../outside/dir/absent".into(),
        "../../outside/absent-too".into(),
        format!("{abs}/dir/sub/absent"),
    ]
}

fn gen_case_tree(rng: &mut Rng, sb: &Sandbox) -> Snapshot {
    let mut t = Snapshot::new();
    t.insert("/".into(), Node::dir());
    let mut dirs = vec!["/".to_string()];
    let targets = link_targets(sb);
    let target_n = 8 + rng.below(14) as usize;
    let names = ["a", "b", "c", "d", "l", "m", "é", "z"];
    let mut tries = 0;
    let (uids, gids) = tree::named_ids();
    while t.len() < target_n && tries < 300 {
        tries += 1;
        let d = rng.pick(&dirs).clone();
        let ap = child_of(&d, *rng.pick(&names));
        if t.contains_key(&ap) {
            continue;
        }
        let roll = rng.below(10);
        let mut n = if roll < 3 && ap.matches('/').count() < 3 {
            dirs.push(ap.clone());
            Node::dir()
        } else if roll < 7 {
            let mut target = rng.pick(&targets).clone();
            if rng.chance(1, 5) {
                // another entry of the tree
                let keys: Vec<&String> = t.keys().collect();
                target = format!("{}{}", "../".repeat(ap.matches('/').count() - 1), rng.pick(&keys).trim_start_matches('/'));
                if target.is_empty() {
                    target = ".".into();
                }
            }
            Node::symlink(&target)
        } else {
            let len = rng.below(50) as usize;
            Node::file(gen_content(rng, len))
        };
        n.mtime_s = 1_300_000_000 + rng.below(1000) as i64;
        n.mtime_ns = rng.below(1_000_000_000) as u32;
        if n.kind != Kind::Symlink {
            n.mode = *rng.pick(&[0o755, 0o700, 0o644, 0o4755, 0o600]);
        }
        if tree::is_root() && rng.chance(1, 2) {
            n.uid = *rng.pick(uids);
            n.gid = *rng.pick(gids);
        }
        t.insert(ap, n);
    }
    t
}

fn one_case(run: &Run, case: u64) {
    let mut rng = Rng::for_case(run.seed, case, 18);
    let sb = sandbox("c16");
    let spec = gen_case_tree(&mut rng, &sb);
    tree::sync_to_disk(None, &spec, &sb.src).expect("materialise");
    let snap = tree::snapshot(&sb.src).expect("snapshot");
    let arch = sb.work.join("arch");
    cs::create_archive(&arch);
    let o = Opts { hunk: *rng.pick(&[2usize, 100_000]), block: 64, cap: 16 };
    let replay = json!({"case": case});
    run.eval();
    let before_backup = watch(&sb.outside);
    let b = cs::backup(cs::local(&arch), &sb.src, o, &[], None);
    if !b.clean() {
        run.violation("backup-failed", b.describe(), replay);
        return;
    }
    if let Some(d) = first_diff(&before_backup, &watch(&sb.outside)) {
        run.violation("backup-touched-outside", d, replay);
        return;
    }
    let n_links = snap.values().filter(|n| n.kind == Kind::Symlink).count();
    run.count("symlinks_in_sources", n_links as u64);
    for n in snap.values().filter(|n| n.kind == Kind::Symlink) {
        run.observe("link_target_shapes", n.target.replace(&*sb.outside.to_string_lossy(), "<ABS>"));
    }
    if n_links >= 2 {
        run.nontrivial(tree::tree_sig(&snap));
    }
    run.sample(|| json!({"case": case, "tree": snap.iter().map(|(p, n)| format!("{p} {}", if n.kind == Kind::Symlink { format!("-> {}", n.target) } else { format!("{:?}", n.kind) })).collect::<Vec<_>>()}));
    let dirs: Vec<String> = snap.iter().filter(|(p, n)| n.kind == Kind::Dir && p.as_str() != "/").map(|(p, _)| p.clone()).collect();
    let mut selections: Vec<(Option<String>, Vec<String>)> = vec![(None, vec![])];
    if let Some(d) = dirs.first() {
        selections.push((Some(d.clone()), vec![]));
    }
    selections.push((None, vec!["a".into()]));
    selections.push((None, vec!["/l".into(), "é".into()]));
    let outside0 = watch(&sb.outside);
    let src0 = watch(&sb.src);
    for (si, (subtree, excl)) in selections.iter().enumerate() {
        for dest_state in ["absent", "empty", "populated", "populated+overwrite", "populated-dotnames"] {
            let dest = sb.work.join(format!("dest{si}{}", dest_state.len()));
            match dest_state {
                "empty" => std::fs::create_dir_all(&dest).unwrap(),
                "populated-dotnames" => {
                    // everything that is there has a name starting with a dot: still not empty
                    std::fs::create_dir_all(dest.join(".config")).unwrap();
                    std::fs::write(dest.join(".config/settings"), b"already here").unwrap();
                    std::fs::write(dest.join(".hidden"), b"keep me").unwrap();
                    let _ = std::os::unix::fs::symlink("../../outside/dir", dest.join(".l"));
                }
                "populated" | "populated+overwrite" => {
                    std::fs::create_dir_all(dest.join("pre/sub")).unwrap();
                    std::fs::write(dest.join("pre/sub/file"), b"already here").unwrap();
                    std::fs::write(dest.join("zz-existing"), b"keep me").unwrap();
                }
                _ => {}
            }
            let dest0 = if dest.exists() { Some(watch(&dest)) } else { None };
            let overwrite = dest_state == "populated+overwrite";
            let r = cs::restore(cs::local(&arch), Some(0), &dest, subtree.as_deref(), excl, overwrite);
            run.eval();
            run.count("restores_watched", 1);
            let rp = json!({"case": case, "selection": si, "dest": dest_state});
            if let Some(p) = &r.panic {
                run.violation(format!("restore-panic:{}", panic_site(p)), p.clone(), rp);
                return;
            }
            if let Some(d) = first_diff(&outside0, &watch(&sb.outside)) {
                run.violation(
                    "restore-modified-outside-destination",
                    format!("restore (subtree {subtree:?}, exclude {excl:?}, dest {dest_state}) changed sandbox/outside: {d}"),
                    rp,
                );
                return;
            }
            if let Some(d) = first_diff(&src0, &watch(&sb.src)) {
                run.violation("restore-modified-source-tree", d, rp);
                return;
            }
            if dest_state == "populated" || dest_state == "populated-dotnames" {
                run.count("refusals_checked", 1);
                let refused = matches!(&r.result, Some(Err(e)) if e.contains("not empty"));
                if !refused {
                    run.violation("non-empty-destination-not-refused", r.describe(), rp);
                    return;
                }
                if let Some(d) = first_diff(dest0.as_ref().unwrap(), &watch(&dest)) {
                    run.violation("refused-restore-touched-destination", d, rp);
                    return;
                }
            } else if !r.ok() {
                run.violation("restore-failed", r.describe(), rp);
                return;
            }
            crate::scratch::rm(&dest);
        }
    }
}

/// Successive restores into one destination. Version A holds symlinks to the sentinels; in
/// version B they have become directories (with children named like the sentinels' children)
/// or regular files. B restored with `overwrite` over a restore of A meets those links in the
/// destination: they came from the source, and writing through them leaves the destination.
fn one_successive(run: &Run, case: u64) {
    let mut rng = Rng::for_case(run.seed, case, 181);
    let sb = sandbox("c16s");
    let spec_a = gen_case_tree(&mut rng, &sb);
    let links: Vec<String> = spec_a.iter().filter(|(_, n)| n.kind == Kind::Symlink).map(|(p, _)| p.clone()).collect();
    if links.is_empty() {
        return;
    }
    let mut spec_b = spec_a.clone();
    let mut became_dir = Vec::new();
    let file = |content: &str, s: i64| {
        let mut n = Node::file(content.as_bytes().to_vec());
        n.mtime_s = s;
        n.mode = 0o640;
        n
    };
    for l in &links {
        if rng.chance(1, 2) {
            let mut d = Node::dir();
            d.mtime_s = 1_400_000_000;
            d.mode = 0o750;
            spec_b.insert(l.clone(), d.clone());
            for name in ["f", "g", "new"] {
                spec_b.insert(child_of(l, name), file(&format!("version B {name}"), 1_400_000_001));
            }
            let sub = child_of(l, "sub");
            spec_b.insert(sub.clone(), d);
            spec_b.insert(child_of(&sub, "h"), file("version B h", 1_400_000_002));
            became_dir.push(l.clone());
        } else {
            spec_b.insert(l.clone(), file("version B content in place of a link", 1_400_000_003));
        }
    }
    tree::sync_to_disk(None, &spec_a, &sb.src).expect("materialise");
    let arch = sb.work.join("arch");
    cs::create_archive(&arch);
    let o = Opts { hunk: *rng.pick(&[2usize, 100_000]), block: 64, cap: 16 };
    let replay = json!({"successive": true, "case": case});
    run.eval();
    if !cs::backup(cs::local(&arch), &sb.src, o, &[], None).clean() {
        run.inconclusive("successive: backup of version A not clean");
        return;
    }
    tree::sync_to_disk(Some(&spec_a), &spec_b, &sb.src).expect("sync");
    if !cs::backup(cs::local(&arch), &sb.src, o, &[], None).clean() {
        run.inconclusive("successive: backup of version B not clean");
        return;
    }
    let outside0 = watch(&sb.outside);
    // the second restore: everything, or only something below a link that became a directory
    let mut selections: Vec<Option<String>> = vec![None];
    if let Some(d) = became_dir.first() {
        selections.push(Some(child_of(d, "sub")));
    }
    for (si, subtree) in selections.iter().enumerate() {
        for (first, second) in [(0u32, 1u32), (1, 0)] {
            let dest = sb.work.join(format!("sdest{si}{first}"));
            let r1 = cs::restore(cs::local(&arch), Some(first), &dest, None, &[], false);
            if !r1.clean() {
                run.violation("restore-failed", format!("restore of b{first:04} into a fresh directory: {}", r1.describe()), replay.clone());
                return;
            }
            let r2 = cs::restore(cs::local(&arch), Some(second), &dest, subtree.as_deref(), &[], true);
            run.count("overwrite_restores_over_an_earlier_restore", 1);
            if first == 0 {
                run.count("overwrite_restores_meeting_links_left_by_the_earlier_version", 1);
            }
            if let Some(p) = &r2.panic {
                run.violation(format!("restore-panic:{}", panic_site(p)), p.clone(), replay.clone());
                return;
            }
            if let Some(d) = first_diff(&outside0, &watch(&sb.outside)) {
                run.violation(
                    "overwrite-restore-over-earlier-restore-modified-outside-destination",
                    format!("restore b{first:04}, then restore b{second:04} (subtree {subtree:?}) with overwrite into the same directory changed sandbox/outside: {d}; links in b0000: {:?}",
                        links.iter().take(4).map(|l| format!("{l} -> {}", spec_a[l].target)).collect::<Vec<_>>()),
                    replay.clone(),
                );
                return;
            }
            crate::scratch::rm(&dest);
        }
    }
    run.nontrivial(tree::tree_sig(&spec_b) ^ 0x5);
}

/// Versions stitched from an interrupted backup in which a directory was replaced by a symlink
/// to a directory outside: entries of the older band lie "below" the link.
fn stitched_case(run: &Run, case: u64) {
    let mut rng = Rng::for_case(run.seed, case, 19);
    let sb = sandbox("c16s");
    let mut spec = Snapshot::new();
    spec.insert("/".into(), Node::dir());
    // the directory that will become a symlink sits at the root or one or two levels down
    let depth = (case % 3) as usize;
    let prefix = ["", "/outer", "/o/p"][depth];
    let mut up = String::new();
    for part in prefix.split('/').filter(|p| !p.is_empty()) {
        up = format!("{up}/{part}");
        spec.insert(up.clone(), Node::dir());
    }
    let dname = format!("{prefix}/{}", *rng.pick(&["a", "m", "é"]));
    let dname = &dname[1..];
    spec.insert(format!("/{dname}"), Node::dir());
    for f in ["x", "f", "new"] {
        spec.insert(format!("/{dname}/{f}"), Node::file(gen_content(&mut rng, 20)));
    }
    // like the sentinel directory, it has a subdirectory "sub" holding "h"
    spec.insert(format!("/{dname}/sub"), Node::dir());
    spec.insert(format!("/{dname}/sub/h"), Node::file(gen_content(&mut rng, 9)));
    for f in ["b", "c", "zz"] {
        spec.insert(format!("/{f}"), Node::file(gen_content(&mut rng, 30)));
    }
    tree::sync_to_disk(None, &spec, &sb.src).unwrap();
    let arch = sb.work.join("arch");
    cs::create_archive(&arch);
    let o = Opts { hunk: 2, block: 64, cap: 16 };
    let b = cs::backup(cs::local(&arch), &sb.src, o, &[], None);
    assert!(b.clean(), "{}", b.describe());
    // every second scenario has another interrupted version in between, in which the
    // subdirectory is gone and later-sorting siblings have appeared: the final version is then
    // stitched from three bands, and the oldest can contribute /d/sub/h without /d/sub
    let mut bases: Vec<(std::path::PathBuf, String)> = Vec::new();
    if (case / 3) % 2 == 1 {
        let old = spec.clone();
        spec.retain(|p, _| !tree::is_under(p, &format!("/{dname}/sub")));
        spec.remove(&format!("/{dname}/f"));
        for f in ["t", "zlast"] {
            spec.insert(format!("/{dname}/{f}"), Node::file(gen_content(&mut rng, 12)));
        }
        tree::sync_to_disk(Some(&old), &spec, &sb.src).unwrap();
        let probe = sb.work.join("probe");
        fmt06::copy_dir(&arch, &probe);
        let ic = Icept::new(&probe, Mode::Log, 0);
        let _ = cs::backup(ic.transport(1), &sb.src, o, &[], None);
        let writes: Vec<usize> = ic.log().iter().filter(|e| e.verb == V::Write).map(|e| e.idx).collect();
        crate::scratch::rm(&probe);
        // the later kill points: some hunks of the middle version exist
        let mut ks: Vec<usize> = writes.iter().rev().take(6).copied().collect();
        rng.shuffle(&mut ks);
        for (i, k) in ks.into_iter().take(3).enumerate() {
            let mid = sb.work.join(format!("mid{i}"));
            fmt06::copy_dir(&arch, &mid);
            let ic = Icept::new(&mid, Mode::CrashAt { k, torn: false }, 0);
            let _ = cs::backup(ic.transport(1), &sb.src, o, &[], None);
            let raw = fmt06::read_archive(&mid, false);
            if raw.bands.get(&1).map(|b| b.head.is_some() && !b.complete()).unwrap_or(false) {
                bases.push((mid, format!("middle version killed before op {k}; ")));
            } else {
                crate::scratch::rm(&mid);
            }
        }
    }
    if bases.is_empty() {
        bases.push((arch.clone(), String::new()));
    }
    // the directory becomes a symlink to a directory outside the destination
    let old = spec.clone();
    spec.retain(|p, _| !tree::is_under(p, &format!("/{dname}")));
    let direct = format!("{}{}", "../".repeat(depth), *rng.pick(&["../../outside/dir", "../../outside/dir", "../../outside/dir/sub"]));
    // the link leads outside directly, or only by way of something that the same restore creates
    // AFTER it (so that it resolves nowhere at the moment it is made): a sibling link that sorts
    // later, or a sibling directory that sorts later and a '..' out of it
    let target = match rng.below(4) {
        0 | 1 => direct,
        2 => {
            spec.insert(format!("{prefix}/\u{ff}-link"), Node::symlink(&direct));
            run.count("stitched_links_leading_outside_by_way_of_a_later_link", 1);
            "\u{ff}-link".to_string()
        }
        _ => {
            spec.insert(format!("{prefix}/\u{ff}-dir"), Node::dir());
            run.count("stitched_links_leading_outside_by_way_of_a_later_directory", 1);
            format!("\u{ff}-dir/../{direct}")
        }
    };
    let target = target.as_str();
    // the link's own mtime: ordinary, in the last second before the epoch, at it, far from it
    let mut link = Node::symlink(target);
    (link.mtime_s, link.mtime_ns) = [(1_300_000_000i64, 0u32), (-1, 500_000_000), (-1, 999_999_999), (0, 0), (-2, 250_000_000), (20_000_000_000, 1)][((case / 2) % 6) as usize];
    run.observe("stitched_link_mtimes", format!("{}.{:09}", link.mtime_s, link.mtime_ns));
    spec.insert(format!("/{dname}"), link);
    tree::sync_to_disk(Some(&old), &spec, &sb.src).unwrap();
    let outside0 = watch(&sb.outside);
    let mut kill_points = 0;
    for (base, base_desc) in &bases {
        let final_id = fmt06::read_archive(base, false).bands.keys().max().map(|m| m + 1).unwrap_or(0);
        // trace, then kill at every point
        let probe = sb.work.join("probe");
        fmt06::copy_dir(base, &probe);
        let ic = Icept::new(&probe, Mode::Log, 0);
        let _ = cs::backup(ic.transport(1), &sb.src, o, &[], None);
        let trace = ic.log();
        crate::scratch::rm(&probe);
        for k in 0..trace.len() {
            // only kill points that leave a different archive: before a write
            if trace[k].verb != V::Write {
                continue;
            }
            kill_points += 1;
            let work = sb.work.join("w");
            fmt06::copy_dir(base, &work);
            let ic = Icept::new(&work, Mode::CrashAt { k, torn: false }, 0);
            let _ = cs::backup(ic.transport(1), &sb.src, o, &[], None);
            let raw = fmt06::read_archive(&work, false);
            let Some(nb) = raw.bands.get(&final_id) else {
                crate::scratch::rm(&work);
                continue;
            };
            if nb.head.is_none() {
                crate::scratch::rm(&work);
                continue;
            }
            let model = crate::oracle::stitch_model(&raw, final_id);
            let below_link = model.iter().any(|(_, e)| {
                e.apath != format!("/{dname}") && tree::is_under(&e.apath, &format!("/{dname}"))
            }) && model.iter().any(|(_, e)| e.apath == format!("/{dname}") && e.kind == "Symlink");
            let dest = sb.work.join("dest");
            let r = cs::restore(cs::local(&work), Some(final_id), &dest, None, &[], false);
            run.eval();
            run.count("stitched_restores_watched", 1);
            if below_link {
                run.count("stitched_versions_with_entries_below_a_symlink", 1);
                let bands_used: std::collections::BTreeSet<u32> = model.iter().map(|(b, _)| *b).collect();
                if bands_used.len() >= 3 {
                    run.count("stitched_from_three_bands_with_entries_below_a_symlink", 1);
                }
                let parents: std::collections::BTreeSet<&str> = model.iter().map(|(_, e)| e.apath.as_str()).collect();
                if model.iter().any(|(_, e)| tree::is_under(&e.apath, &format!("/{dname}")) && !parents.contains(tree::parent_of(&e.apath))) {
                    run.count("stitched_versions_with_a_parentless_entry_below_a_symlink", 1);
                }
                run.nontrivial(fnv(format!("{case}:{base_desc}{k}").as_bytes()));
            }
            let rp = json!({"stitched": true, "case": case, "k": k});
            if let Some(p) = &r.panic {
                run.violation(format!("restore-panic:{}", panic_site(p)), p.clone(), rp);
            } else if let Some(d) = first_diff(&outside0, &watch(&sb.outside)) {
                run.violation(
                    "restore-modified-outside-destination:stitched-entry-below-symlink",
                    format!(
                        "{base_desc}version stitched from a backup killed before op {k} ({}): /{dname} is a symlink to {target} and an older band's entries below it were restored through the link: {d} (restore returned {})",
                        trace[k].brief(),
                        r.describe()
                    ),
                    rp,
                );
                // repair the sentinel area for the next point
                crate::scratch::rm(&sb.outside);
                let fresh = sandbox("c16tmp");
                fmt06::copy_dir(&fresh.outside, &sb.outside);
                crate::scratch::rm(&dest);
                crate::scratch::rm(&work);
                return;
            }
            crate::scratch::rm(&dest);
            crate::scratch::rm(&work);
        }
    }
    run.sample(|| json!({"stitched_case": case, "dir_replaced_by_symlink": format!("/{dname} -> {target}"), "bases": bases.iter().map(|b| b.1.clone()).collect::<Vec<_>>(), "kill_points": kill_points}));
}

pub fn run(tier: Tier, replay: Option<Value>) -> i32 {
    let run = Run::new("C16", "exploration", tier, replay.clone());
    let stitched_replay = replay.as_ref().and_then(|r| r.get("stitched")).is_some();
    let successive_replay = replay.as_ref().and_then(|r| r.get("successive")).is_some();
    if !stitched_replay && !successive_replay {
        run.par_cases(tier.pick(600, 40000), super::threads(), |c| one_case(&run, c));
    }
    if replay.is_none() || successive_replay {
        run.par_cases(tier.pick(300, 20000), super::threads(), |c| one_successive(&run, c));
    }
    if (replay.is_none() || stitched_replay) && !successive_replay {
        let n = tier.pick(96u64, 1500);
        if let Some(r) = &replay {
            stitched_case(&run, r["case"].as_u64().unwrap_or(0));
        } else {
            let next = std::sync::atomic::AtomicU64::new(0);
            std::thread::scope(|s| {
                for _ in 0..super::threads() {
                    s.spawn(|| loop {
                        let c = next.fetch_add(1, std::sync::atomic::Ordering::SeqCst);
                        if c >= n {
                            break;
                        }
                        if let Err(m) = crate::report::guard(|| stitched_case(&run, c)) {
                            run.inconclusive(format!("harness error in stitched case {c}: {m}"));
                        }
                    });
                }
            });
        }
    }
    let needs: &[(&str, u64)] = if replay.is_some() { &[] } else {
        &[("restores_watched", 100), ("refusals_checked", 20), ("symlinks_in_sources", 100), ("stitched_versions_with_entries_below_a_symlink", 3), ("stitched_from_three_bands_with_entries_below_a_symlink", 1), ("overwrite_restores_meeting_links_left_by_the_earlier_version", 50), ("stitched_links_leading_outside_by_way_of_a_later_link", 1), ("stitched_links_leading_outside_by_way_of_a_later_directory", 1)]
    };
    run.finish(
        "sandbox {outside/{file,dir/{f,g,sub/h}}, work/{src,arch,dest}}; generated source trees whose symlinks point at the sentinels beside the destination (relative at several depths, absolute), at '..', '../..', '.', '/', other entries of the tree, nothing, and names that do not exist in directories that do exist beside the destination (dangling links through which a file could be created); each version is restored with 4 selections (all, a subtree, two exclusion sets) x destination {absent, empty, pre-populated, pre-populated + overwrite, pre-populated with dot-named entries only}; before and after every restore a recursive lstat + content + ctime snapshot of outside/ and of the source must be identical; a pre-populated destination without overwrite must be refused and left identical (incl. ctime). Second part: successive restores into one destination: version A with links to the sentinels, version B in which every such link has become a directory (with children named like the sentinel directory's) or a file; A is restored into a fresh directory and B over it with overwrite (whole, and only a subtree below a former link), and the reverse order; outside/ must stay identical. Third part: versions stitched from a backup killed at every write point after a directory was replaced by a symlink to outside/dir (the link's own mtime being ordinary, within the last second before the epoch, at it, or far from it) (entries of the older band then lie below the link); in half of these scenarios the link leads outside only by way of a later-sorting sibling link or of a later-sorting sibling directory and a '..' out of it, so that it resolves nowhere when it is made; in every second scenario another version lies in between, killed at one of its last write points, in which the directory's subdirectory is gone and later-sorting siblings have appeared, so that the final version is stitched from three bands and the oldest contributes an entry whose parent directory is not listed. Non-trivial = tree with >= 2 symlinks / stitched version with entries below a symlink.",
        &["ctime comparison detects chmod/chown/utimes through a link even when values are unchanged", "links in a pre-populated destination are generated only by restoring another version of the same archive into it (the statement scopes hostile input to symlinks the source contained)"],
        None,
        needs,
    )
}
