//! C15 — exclusions mean the same thing at backup, list and restore time.

use std::collections::BTreeSet;

use serde_json::{Value, json};

use crate::cs::{self, Opts};
use crate::fmt06;
use crate::oracle::GlobModel;
use crate::report::{Run, Tier, panic_site};
use crate::rng::{Rng, fnv};
use crate::scratch::Scratch;
use crate::tree::{self, Kind, Node, Snapshot, child_of, gen_content};

const NAMES15: &[&str] = &[
    "a", "ab", "b", "x", "ax", "bx", "n", "d", "f", "a.txt", "b.txt", "c.log", "é", "éx", "日.txt", "A", "Z9", "0", "_u", "a b",
    // what a patterns FILE would take for a comment; given as a pattern string it is a pattern
    "#a#", "#x",
];

fn gen_case_tree(rng: &mut Rng) -> Snapshot {
    let mut t = Snapshot::new();
    t.insert("/".into(), Node::dir());
    let mut dirs = vec!["/".to_string()];
    let target = 10 + rng.below(25) as usize;
    let mut tries = 0;
    while t.len() < target && tries < 400 {
        tries += 1;
        let d = rng.pick(&dirs).clone();
        let ap = child_of(&d, *rng.pick(NAMES15));
        if t.contains_key(&ap) {
            continue;
        }
        let depth = ap.matches('/').count();
        let roll = rng.below(10);
        let n = if roll < 4 && depth < 4 {
            dirs.push(ap.clone());
            Node::dir()
        } else if roll < 5 {
            Node::symlink("x")
        } else {
            let len = rng.below(30) as usize;
            Node::file(gen_content(rng, len))
        };
        t.insert(ap, n);
    }
    t
}

fn gen_patterns(rng: &mut Rng, snap: &Snapshot) -> Vec<String> {
    let paths: Vec<&String> = snap.keys().filter(|p| p.as_str() != "/").collect();
    let dirs_with_children: Vec<&String> = snap
        .iter()
        .filter(|(p, n)| n.kind == Kind::Dir && p.as_str() != "/" && snap.keys().any(|q| q != *p && tree::is_under(q, p)))
        .map(|(p, _)| p)
        .collect();
    // now and then a long exclude list
    let n = if rng.chance(1, 12) { 8 + rng.below(8) } else { 1 + rng.below(4) };
    let mut v = Vec::new();
    for _ in 0..n {
        let p = match rng.below(25) {
            0 => (*rng.pick(&paths)).clone(),
            1 if !dirs_with_children.is_empty() => (*rng.pick(&dirs_with_children)).clone(),
            2 => rng.pick(&paths).rsplit('/').next().unwrap().to_string(),
            3 => (*rng.pick(&["*.txt", "*.txt", "#*#", "#*"])).into(),
            4 => "?x".into(),
            5 => {
                // d/*/f from an existing deep path
                let deep: Vec<&&String> = paths.iter().filter(|p| p.matches('/').count() >= 3).collect();
                if deep.is_empty() {
                    "a/*/x".into()
                } else {
                    let comps: Vec<&str> = rng.pick(&deep)[1..].split('/').collect();
                    let l = comps.len();
                    format!("{}/*/{}", comps[l - 3], comps[l - 1])
                }
            }
            6 => format!("**/{}", rng.pick(&paths).rsplit('/').next().unwrap()),
            7 if !dirs_with_children.is_empty() => format!("{}/**", rng.pick(&dirs_with_children).rsplit('/').next().unwrap()),
            8 => "[ab]*".into(),
            9 => "[!a-z]*".into(),
            10 => "é*".into(),
            11 if !dirs_with_children.is_empty() => format!("{}/*", rng.pick(&dirs_with_children)),
            // anchored wildcard before a literal: must match at the root only
            13 => "/*.txt".into(),
            14 => format!("/*/{}", rng.pick(&paths).rsplit('/').next().unwrap()),
            // a '?' or a negated class where a deeper path has its '/': must not match across it
            15 | 16 if !dirs_with_children.is_empty() => {
                let d = rng.pick(&dirs_with_children);
                let kids: Vec<&&String> = paths.iter().filter(|p| p.starts_with(&format!("{d}/")) && p.matches('/').count() == d.matches('/').count() + 1).collect();
                let last = d.rsplit('/').next().unwrap();
                match kids.first() {
                    Some(k) => format!("{last}{}{}", if rng.chance(1, 2) { "?" } else { "[!a]" }, k.rsplit('/').next().unwrap()),
                    None => format!("{last}?x"),
                }
            }
            // alternation, at any depth and anchored
            17 => {
                let a = rng.pick(&paths).rsplit('/').next().unwrap().to_string();
                let b = rng.pick(&paths).rsplit('/').next().unwrap().to_string();
                if a.contains([',', '{', '}']) || b.contains([',', '{', '}']) { "{a,b}".into() } else if rng.chance(1, 2) { format!("{{{a},{b}}}") } else { format!("/{{{a},{b}}}") }
            }
            // '**' in the middle and on both sides
            18 => format!("**/{}/**", rng.pick(&paths).rsplit('/').next().unwrap()),
            19 if !dirs_with_children.is_empty() => {
                let d = rng.pick(&dirs_with_children);
                let below: Vec<&&String> = paths.iter().filter(|p| p.starts_with(&format!("{d}/"))).collect();
                format!("{d}/**/{}", rng.pick(&below).rsplit('/').next().unwrap())
            }
            // a name in the other case: must not match (matching is case sensitive)
            20 => {
                let n = rng.pick(&paths).rsplit('/').next().unwrap();
                if n.chars().any(|c| c.is_lowercase()) { n.to_uppercase() } else { n.to_lowercase() }
            }
            // a literal prefix followed by '*': must stay within one component
            21 => {
                let n = rng.pick(&paths).rsplit('/').next().unwrap();
                let c = n.chars().next().unwrap();
                if c.is_alphanumeric() { format!("{c}*") } else { "a*".into() }
            }
            22 => format!("/{}*", rng.pick(&paths).chars().skip(1).take(1).filter(|c| c.is_alphanumeric()).collect::<String>()),
            // '**' glued to a name is two '*'s: within one component, but what it matches is
            // excluded with everything below it
            23 | 24 => {
                let n = rng.pick(&paths).rsplit('/').next().unwrap();
                let stem: String = n.chars().take(1 + rng.below(2) as usize).collect();
                if stem.contains(['[', ']', '{', '}', '*', '?', '\\']) { "a**".into() } else {
                    match rng.below(3) { 0 => format!("{stem}**"), 1 => format!("/{stem}**"), _ => format!("**{stem}") }
                }
            }
            _ => format!("/{}", *rng.pick(NAMES15)),
        };
        if !v.contains(&p) {
            v.push(p);
        }
    }
    v
}

fn one_case(run: &Run, case: u64) {
    let mut rng = Rng::for_case(run.seed, case, 16);
    let mut spec = gen_case_tree(&mut rng);
    // scale: every 20th case has two directories of 150-400 files of which a pattern excludes most
    // but not all, so that whole index hunks consist (almost) only of excluded entries
    let wide = case % 20 == 7;
    if wide {
        for dir in ["/build", "/out"] {
            spec.insert(dir.into(), Node::dir());
            let n = 150 + rng.below(250);
            for i in 0..n {
                let ext = if rng.chance(1, 20) { "c" } else { "o" };
                spec.insert(format!("{dir}/u{i:03}.{ext}"), Node::file(gen_content(&mut rng, 3)));
            }
        }
        run.count("cases_with_hundreds_of_entries", 1);
    }
    let sc = Scratch::new("c15");
    let src = sc.join("src");
    tree::sync_to_disk(None, &spec, &src).expect("materialise");
    let snap = tree::snapshot(&src).expect("snapshot");
    let mut pats = gen_patterns(&mut rng, &snap);
    if wide {
        pats.retain(|p| p.len() > 1 && !p.contains("build") && !p.contains("out"));
        pats.insert(0, (*rng.pick(&["*.o", "/build/*.o", "u*.o", "**/*.o"])).to_string());
    }
    let model = GlobModel::new(&pats);
    let replay = json!({"case": case, "patterns": pats});
    let o = Opts { hunk: if wide { *rng.pick(&[33usize, 64, 100]) } else { *rng.pick(&[2usize, 100_000]) }, block: 64, cap: 16 };
    run.eval();
    // oracle: omitted iff it or an ancestor matches
    let expected: Vec<String> = snap.keys().filter(|p| p.as_str() != "/" && !model.excluded(p)).cloned().collect();
    let expected_set: BTreeSet<String> = expected.iter().cloned().collect();
    let n_excluded = snap.len() - 1 - expected.len();
    run.count("paths_judged", (snap.len() - 1) as u64);
    run.count("paths_excluded_by_oracle", n_excluded as u64);
    if n_excluded > 0 && !expected.is_empty() {
        run.count("cases_excluding_some_but_not_all", 1);
        run.nontrivial(tree::tree_sig(&snap) ^ fnv(pats.join("\n").as_bytes()));
    }
    if snap.iter().any(|(p, n)| n.kind == Kind::Dir && p != "/" && model.excluded(p) && snap.keys().any(|q| q != p && tree::is_under(q, p))) {
        run.count("cases_excluding_a_directory_with_children", 1);
    }
    for p in &pats {
        run.observe("pattern_shapes", p.chars().map(|c| if c.is_alphanumeric() { 'w' } else { c }).collect::<String>());
    }
    run.sample(|| json!({"case": case, "patterns": pats, "tree": snap.keys().collect::<Vec<_>>(), "kept": expected}));

    // (a) backup with the exclusions
    let arch_a = sc.join("arch_a");
    cs::create_archive(&arch_a);
    let b = cs::backup(cs::local(&arch_a), &src, o, &pats, None);
    if let Some(p) = &b.panic {
        run.violation(format!("backup-panic:{}", panic_site(p)), p.clone(), replay);
        return;
    }
    if !b.clean() {
        run.violation("backup-with-excludes-failed", b.describe(), replay);
        return;
    }
    let raw = fmt06::read_archive(&arch_a, false);
    let stored: BTreeSet<String> = raw.bands[&0].own_entries().iter().map(|e| e.apath.clone()).filter(|p| p != "/").collect();
    // (b),(c) on a full backup
    let arch_f = sc.join("arch_f");
    cs::create_archive(&arch_f);
    let b = cs::backup(cs::local(&arch_f), &src, o, &[], None);
    if !b.clean() {
        run.violation("full-backup-failed", b.describe(), replay);
        return;
    }
    let l = cs::list(cs::local(&arch_f), Some(0), "/", &pats);
    let Some(listed) = l.value() else {
        run.violation("list-with-excludes-failed", l.describe(), replay);
        return;
    };
    let listed: BTreeSet<String> = listed.iter().map(|e| e.apath.clone()).filter(|p| p != "/").collect();
    let dest = sc.join("dest");
    let r = cs::restore(cs::local(&arch_f), Some(0), &dest, None, &pats, false);
    if let Some(p) = &r.panic {
        run.violation(format!("restore-panic:{}", panic_site(p)), p.clone(), replay);
        return;
    }
    if !r.clean() {
        run.violation("restore-with-excludes-reported-errors", r.describe(), replay);
        return;
    }
    let restored: BTreeSet<String> = tree::snapshot(&dest).expect("snapshot").keys().filter(|p| p.as_str() != "/").cloned().collect();
    run.count("observations_compared", 3);
    let diff = |a: &BTreeSet<String>, b: &BTreeSet<String>| -> String {
        format!(
            "only in first {:?}, only in second {:?}",
            a.difference(b).take(5).collect::<Vec<_>>(),
            b.difference(a).take(5).collect::<Vec<_>>()
        )
    };
    for (name, got) in [("backup", &stored), ("list", &listed), ("restore", &restored)] {
        if got != &expected_set {
            let dropped_extra = got.is_subset(&expected_set);
            run.violation(
                format!("{name}-with-excludes-differs-from-rule:{}", if dropped_extra { "dropped-too-much" } else { "kept-too-much" }),
                format!("patterns {pats:?}: {name} vs rule: {}", diff(got, &expected_set)),
                replay,
            );
            return;
        }
    }
    // (d) the same exclusions combined with a subtree selection: what is listed / restored is
    // the part of the rule's set at or below S
    let dirs: Vec<&String> = snap.iter().filter(|(p, n)| n.kind == Kind::Dir && p.as_str() != "/" && !model.excluded(p)).map(|(p, _)| p).collect();
    if !dirs.is_empty() {
        let s_dir = (*rng.pick(&dirs)).clone();
        let want: BTreeSet<String> = expected_set.iter().filter(|p| tree::is_under(p, &s_dir)).cloned().collect();
        let l = cs::list(cs::local(&arch_f), Some(0), &s_dir, &pats);
        let Some(listed) = l.value() else {
            run.violation("list-with-excludes-and-subtree-failed", l.describe(), replay);
            return;
        };
        let listed: BTreeSet<String> = listed.iter().map(|e| e.apath.clone()).collect();
        let dest2 = sc.join("dest2");
        let r = cs::restore(cs::local(&arch_f), Some(0), &dest2, Some(&s_dir), &pats, false);
        if !r.clean() {
            run.violation("restore-with-excludes-and-subtree-reported-errors", format!("subtree {s_dir}: {}", r.describe()), replay);
            return;
        }
        // the directories above S are created on the way
        let restored: BTreeSet<String> = tree::snapshot(&dest2).expect("snapshot").keys().filter(|p| p.as_str() != "/" && !(tree::is_under(&s_dir, p) && **p != s_dir)).cloned().collect();
        run.count("observations_compared", 2);
        run.count("subtree_and_exclude_combinations", 1);
        for (name, got) in [("list", &listed), ("restore", &restored)] {
            if got != &want {
                let dropped_extra = got.is_subset(&want);
                run.violation(
                    format!("{name}-with-excludes-and-subtree-differs-from-rule:{}", if dropped_extra { "dropped-too-much" } else { "kept-too-much" }),
                    format!("patterns {pats:?}, subtree {s_dir}: {name} vs rule: {}", diff(got, &want)),
                    replay,
                );
                return;
            }
        }
    }
}

/// Scale: more than a thousand directories matched by one pattern in one backup.
fn many_excluded_dirs(run: &Run) {
    let mut spec = Snapshot::new();
    spec.insert("/".into(), Node::dir());
    for i in 0..1_150 {
        let p = format!("/proj{i:04}");
        spec.insert(p.clone(), Node::dir());
        spec.insert(format!("{p}/main.c"), Node::file(vec![b'c'; 3]));
        spec.insert(format!("{p}/target"), Node::dir());
        spec.insert(format!("{p}/target/debug"), Node::dir());
        spec.insert(format!("{p}/target/debug/main.o"), Node::file(vec![b'o'; 2]));
    }
    let sc = Scratch::new("c15big");
    let src = sc.join("src");
    tree::sync_to_disk(None, &spec, &src).expect("materialise");
    let pats = vec!["target".to_string(), "*.o".to_string()];
    let model = GlobModel::new(&pats);
    let expected: BTreeSet<String> = spec.keys().filter(|p| p.as_str() != "/" && !model.excluded(p)).cloned().collect();
    let o = Opts { hunk: 1000, block: 64, cap: 16 };
    run.eval();
    let replay = json!({"many_excluded_dirs": true});
    let arch_a = sc.join("arch_a");
    cs::create_archive(&arch_a);
    let b = cs::backup(cs::local(&arch_a), &src, o, &pats, None);
    if !b.clean() {
        run.violation("backup-with-excludes-failed", b.describe(), replay);
        return;
    }
    let raw = fmt06::read_archive(&arch_a, false);
    let stored: BTreeSet<String> = raw.bands[&0].own_entries().iter().map(|e| e.apath.clone()).filter(|p| p != "/").collect();
    let arch_f = sc.join("arch_f");
    cs::create_archive(&arch_f);
    let _ = cs::backup(cs::local(&arch_f), &src, o, &[], None);
    let listed: BTreeSet<String> = cs::list(cs::local(&arch_f), Some(0), "/", &pats).value().map(|v| v.iter().map(|e| e.apath.clone()).filter(|p| p != "/").collect()).unwrap_or_default();
    run.count("observations_compared", 2);
    for (name, got) in [("backup", &stored), ("list", &listed)] {
        if got != &expected {
            run.violation(
                format!("{name}-with-excludes-differs-from-rule:{}", if got.is_subset(&expected) { "dropped-too-much" } else { "kept-too-much" }),
                format!("1150 projects each with a target/ directory, patterns {pats:?}: {name} has {} paths, the rule {}; e.g. only in {name}: {:?}, only in rule: {:?}", got.len(), expected.len(), got.difference(&expected).next(), expected.difference(got).next()),
                replay,
            );
            return;
        }
    }
    run.count("backups_excluding_more_than_1000_directories", 1);
}

pub fn run(tier: Tier, replay: Option<Value>) -> i32 {
    let run = Run::new("C15", "exploration", tier, replay.clone());
    if replay.as_ref().and_then(|r| r.get("many_excluded_dirs")).is_some() {
        many_excluded_dirs(&run);
        return run.finish("replay", &[], None, &[]);
    }
    if replay.is_none() {
        super::alongside(&run, "the many-excluded-directories case", || many_excluded_dirs(&run), || run.par_cases(tier.pick(3000, 300000), super::threads(), |c| one_case(&run, c)));
    } else {
        run.par_cases(tier.pick(3000, 300000), super::threads(), |c| one_case(&run, c));
    }
    run.finish(
        "generated trees (depth <= 4, names with extensions, upper/lower case, digits, non-ASCII, names beginning with '#') x sets of 1-4 (one case in twelve: 8-15) exclusion patterns instantiated from the tree: anchored file and directory paths, bare names, '*.ext', '?x', 'd/*/f', '**/n', 'd/**', '[ab]*', '[!a-z]*', 'é*', '/d/*', '/*.ext', '/*/name', 'dir?child' and 'dir[!a]child' (which must not match across the separator), '{a,b}' and '/{a,b}', '**/n/**', '/d/**/n', a name in the other case (must not match), 'c*' and '/c*', '**' glued to a name ('c**', '/c**', '**c'). One tree of 1150 projects, each with a target/ directory, is backed up and listed with the patterns 'target' and '*.o' (more than a thousand directories pruned in one walk). Every 20th case has two directories of 150-400 files, about 95% of which a '*.o'-like pattern excludes, stored in hunks of 33-100 entries. Observed: (a) the paths stored by backup(exclude=E) decoded independently, (b) iter_entries(full backup, exclude=E), (c) the paths created by restore(full backup, exclude=E); all three must equal, below the root, the set given by the rule 'omitted iff the path or an ancestor matches a pattern' evaluated with globs the harness builds from the raw patterns (leading '/' anchors at the root, otherwise any depth). (d) list and restore of the full backup with the exclusions AND a subtree selection S (a directory the rule keeps) must give the part of that set at or below S. Non-trivial = some but not all paths excluded.",
        &["globset's matcher is trusted for what a single glob matches; anchoring, ancestor propagation and the three code paths are what is checked"],
        None,
        &[("observations_compared", 100), ("cases_excluding_some_but_not_all", 30), ("cases_excluding_a_directory_with_children", 10), ("subtree_and_exclude_combinations", 100), ("cases_with_hundreds_of_entries", 20), ("backups_excluding_more_than_1000_directories", 1)],
    )
}
