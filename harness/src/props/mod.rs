use serde_json::Value;

use crate::report::Tier;

pub mod c01;
pub mod c02;
pub mod c03;
pub mod c04;
pub mod c05;
pub mod c06;
pub mod c07;
pub mod c08;
pub mod c09;
pub mod c10;
pub mod c11;
pub mod c12;
pub mod c13;
pub mod c14;
pub mod c15;
pub mod c16;
pub mod c17;
pub mod c18;

pub fn threads() -> usize {
    std::env::var("CV_THREADS")
        .ok()
        .and_then(|s| s.parse().ok())
        .unwrap_or(16)
}

/// Run `side` on its own thread while `main` runs. The scale cases are sequential; started
/// first and run alongside the sharded bulk they neither wait for the soft time budget nor add
/// their whole latency.
pub fn alongside<R>(run: &crate::report::Run, what: &str, side: impl FnOnce() + Send, main: impl FnOnce() -> R) -> R {
    std::thread::scope(|s| {
        let h = s.spawn(|| crate::report::guard(side));
        let r = main();
        match h.join() {
            Ok(Ok(())) => {}
            Ok(Err(m)) => run.inconclusive(format!("harness error in {what}: {m}")),
            Err(_) => run.inconclusive(format!("harness error in {what}: thread panicked")),
        }
        r
    })
}

pub fn dispatch(id: &str, tier: Tier, replay: Option<Value>, _rest: &[String]) -> i32 {
    match id {
        "C01" => c01::run(tier, replay),
        "C02" => c02::run(tier, replay),
        "C03" => c03::run(tier, replay),
        "C04" => c04::run(tier, replay),
        "C05" => c05::run(tier, replay),
        "C06" => c06::run(tier, replay),
        "C07" => c07::run(tier, replay),
        "C08" => c08::run(tier, replay),
        "C09" => c09::run(tier, replay),
        "C10" => c10::run(tier, replay),
        "C11" => c11::run(tier, replay),
        "C12" => c12::run(tier, replay),
        "C13" => c13::run(tier, replay),
        "C14" => c14::run(tier, replay),
        "C15" => c15::run(tier, replay),
        "C16" => c16::run(tier, replay),
        "C17" => c17::run(tier, replay),
        "C18" => c18::run(tier, replay),
        _ => {
            eprintln!("unknown property {id}");
            64
        }
    }
}
