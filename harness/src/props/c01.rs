//! C01 — backup then restore reproduces the source tree exactly.

use serde_json::{Value, json};

use crate::cs::{self, Opts};
use crate::oracle::restore_and_compare;
use crate::report::{Run, Tier, panic_site};
use crate::rng::{Rng, fnv};
use crate::scratch::Scratch;
use crate::tree::{self, CmpOpts, GenParams, GenState, Kind, Snapshot};

pub fn opts_for_case(seed: u64, case: u64) -> Opts {
    let mut all = cs::all_opts();
    let mut rng = Rng::for_case(seed, 0, 100);
    rng.shuffle(&mut all);
    all[(case as usize) % all.len()]
}

/// Which interesting classes a (snapshot, options) pair exercises.
pub fn classes(snap: &Snapshot, o: Opts) -> Vec<&'static str> {
    let mut c = Vec::new();
    let files: Vec<&tree::Node> = snap.values().filter(|n| n.kind == Kind::File).collect();
    if files.iter().any(|n| n.content.len() > o.block) {
        c.push("multi_block_file");
    }
    if files.iter().any(|n| !n.content.is_empty() && n.content.len() % o.block == 0 && n.content.len() >= o.block) {
        c.push("exact_multiple_of_block");
    }
    if files
        .iter()
        .filter(|n| !n.content.is_empty() && n.content.len() as u64 <= o.cap)
        .count()
        >= 2
    {
        c.push("combined_block_2plus_files");
    }
    if files.iter().any(|n| n.content.is_empty()) {
        c.push("empty_file");
    }
    if snap.values().any(|n| n.kind != Kind::Symlink && n.mode & 0o7000 != 0) {
        c.push("special_mode_bits");
    }
    if snap.values().any(|n| n.mtime_s < 0) {
        c.push("pre_epoch_mtime");
    }
    if snap.values().any(|n| n.mtime_s < 0 && n.mtime_ns != 0) {
        c.push("pre_epoch_fractional_mtime");
    }
    if snap.values().any(|n| n.mtime_ns != 0) {
        c.push("subsecond_mtime");
    }
    if snap.keys().any(|p| !p.is_ascii()) {
        c.push("non_ascii_name");
    }
    if snap.values().any(|n| n.kind == Kind::Symlink) {
        c.push("symlink");
    }
    if snap.values().any(|n| n.uid != 0 || n.gid != 0) {
        c.push("non_root_owner");
    }
    if snap.len() > 200 {
        c.push("more_than_200_entries");
    }
    if snap.keys().any(|p| p.rsplit('/').next().map(|n| n.len() >= 250).unwrap_or(false)) {
        c.push("name_of_250_bytes");
    }
    if snap.keys().any(|p| p.matches('/').count() > 25) {
        c.push("nesting_deeper_than_25");
    }
    let mut seen = std::collections::HashSet::new();
    if files
        .iter()
        .any(|n| !n.content.is_empty() && !seen.insert(fnv(&n.content)))
    {
        c.push("duplicate_content");
    }
    c
}

pub fn is_nontrivial(classes: &[&str]) -> bool {
    classes.iter().any(|c| {
        matches!(
            *c,
            "multi_block_file"
                | "combined_block_2plus_files"
                | "special_mode_bits"
                | "pre_epoch_mtime"
                | "subsecond_mtime"
                | "non_ascii_name"
        )
    })
}

fn one_case(run: &Run, case: u64) {
    let mut rng = Rng::for_case(run.seed, case, 1);
    let o = opts_for_case(run.seed, case);
    let mut p = GenParams::small(o.block, o.cap);
    p.target_entries = 6 + rng.below(14) as usize;
    p.max_depth = 4;
    p.ctrl_names = true;
    let mut st = GenState {
        mode_cursor: (case as u32).wrapping_mul(13),
    };
    let mut spec = tree::gen_tree(&mut rng, &p, &mut st);
    if case == 0 {
        // default options and incompressible files of several MiB (in the thorough tier one above
        // the default 20 MiB block size): blocks whose stored form is longer than any buffer
        let len = if run.tier == Tier::Thorough { (21 << 20) + 5 } else { (5 << 20) + 3 };
        spec.insert("/big".into(), tree::Node::file(Rng::for_case(run.seed, 0, 101).bytes(len)));
        spec.insert("/big2".into(), tree::Node::file(Rng::for_case(run.seed, 1, 101).bytes((3 << 20) + 1)));
        run.count("cases_with_incompressible_files_of_several_mib", 1);
    }
    let o = if case == 0 { Opts::DEFAULT } else { o };
    // scale and unusual names: every 40th case is a wide, deep tree (hundreds of entries in one
    // directory, > 100 blocks, 250-byte names, a chain of 30 nested directories)
    if case % 40 == 7 {
        tree::add_wide_and_deep(&mut spec, &mut rng, o.block, p.max_plain_size);
    }
    let sc = Scratch::new("c01");
    let src = sc.join("src");
    tree::sync_to_disk(None, &spec, &src).expect("materialise");
    if case % 6 == 4 {
        // hard links: a second and third name for one inode, in the same and in another directory
        let files: Vec<String> = spec.iter().filter(|(_, n)| n.kind == Kind::File).map(|(p, _)| p.clone()).collect();
        if let Some(f) = files.first() {
            let from = src.join(&f[1..]);
            let made = std::fs::hard_link(&from, src.join("zz-hardlink")).is_ok() as u64
                + std::fs::hard_link(&from, from.with_file_name("zz-other-name")).is_ok() as u64;
            run.count("sources_with_hard_links", (made > 0) as u64);
            // put the directory times back where the tree description has them
            for d in [String::from("/"), tree::parent_of(f).to_string()] {
                if let Some(n) = spec.get(&d) {
                    let p = if d == "/" { src.clone() } else { src.join(&d[1..]) };
                    let _ = filetime::set_file_mtime(&p, filetime::FileTime::from_unix_time(n.mtime_s, n.mtime_ns));
                }
            }
        }
    }
    let snap = tree::snapshot(&src).expect("snapshot");
    if case % 6 == 2 {
        // a fifo and a socket: not backed up, so the restored tree equals the source without them
        // (the directory's mtime changes by creating them, so they go into a directory of their own
        // whose times are set afterwards)
        let special = tree::add_special_files(&src, "/");
        run.count("sources_with_a_fifo_or_socket", !special.is_empty() as u64);
        let root = &snap["/"];
        let _ = filetime::set_file_mtime(&src, filetime::FileTime::from_unix_time(root.mtime_s, root.mtime_ns));
    }
    let replay = json!({"case": case, "options": o.label()});
    run.eval();
    let cl = classes(&snap, o);
    for c in &cl {
        run.count(&format!("class_{c}"), 1);
    }
    for n in snap.values() {
        if n.kind == Kind::File {
            run.observe("file_modes", format!("{:o}", n.mode));
        }
    }
    run.observe("option_sets", o.label());
    if is_nontrivial(&cl) {
        run.nontrivial(tree::tree_sig(&snap) ^ fnv(o.label().as_bytes()));
    }
    run.sample(|| {
        json!({"case": case, "options": o.label(), "classes": cl,
            "tree": snap.iter().take(10).map(|(p, n)| format!("{p} {}", tree::describe(n))).collect::<Vec<_>>()})
    });

    let arch = sc.join("arch");
    cs::create_archive(&arch);
    // every fifth case runs backup and restore on a 4-worker runtime
    let workers = if case % 5 == 4 { 4 } else { 0 };
    if workers > 0 {
        run.count("cases_on_a_multi_thread_runtime", 1);
    }
    let b = cs::with_workers(workers, || cs::backup(cs::local(&arch), &src, o, &[], None));
    if let Some(pmsg) = &b.panic {
        run.violation(
            format!("backup-panic:{}", panic_site(pmsg)),
            format!("backup panicked: {pmsg} ({}; classes {cl:?})", o.label()),
            replay,
        );
        return;
    }
    if !b.ok() {
        run.violation("backup-err", format!("backup failed: {}", b.describe()), replay);
        return;
    }
    let stats = b.value().unwrap();
    if !b.errors.is_empty() || stats.errors != 0 {
        run.violation(
            "backup-reported-errors",
            format!("backup reported errors: {} stats.errors={}", b.describe(), stats.errors),
            replay,
        );
        return;
    }
    run.count("backups", 1);
    run.count("files_backed_up", stats.files as u64);
    run.count("blocks_written", stats.written_blocks as u64);
    run.count("combined_blocks", stats.combined_blocks as u64);
    run.count("multi_block_files", stats.multi_block_files as u64);
    // the source must not have been touched by the backup
    let snap_after = tree::snapshot(&src).expect("snapshot");
    if snap_after != snap {
        run.violation("backup-modified-source", "source tree changed during backup", replay);
        return;
    }
    match cs::with_workers(workers, || restore_and_compare(&arch, Some(0), &snap, &sc, &CmpOpts::default())) {
        Ok(()) => {
            run.count("restores_compared", 1);
            run.count(
                "bytes_compared",
                snap.values().map(|n| n.content.len() as u64).sum(),
            );
            run.count("entries_compared", snap.len() as u64);
        }
        Err(m) => {
            run.violation(m.class, format!("{} ({}; classes {cl:?})", m.detail, o.label()), replay);
        }
    }
}

/// Scale: one tree of 10 040 files backed up with one entry per index hunk (hunks in two
/// index subdirectories), restored and compared.
fn many_hunks(run: &Run) {
    // once with one entry per hunk (two index subdirectories), once with everything in one hunk
    for o in [crate::history::MANY_HUNKS_OPTS, Opts { hunk: 100_000, ..crate::history::MANY_HUNKS_OPTS }] {
    let label = format!("10 040-file tree, {}", o.label());
    let mut w = crate::history::many_hunks_world("c01big", run.seed);
    run.eval();
    let r = w.backup(o);
    let b = r.backup.as_ref().unwrap();
    let replay = json!({"many_hunks": true});
    if !b.clean() {
        run.violation("backup-reported-errors", format!("[{label}] {}", b.describe()), replay);
        return;
    }
    match restore_and_compare(&w.arch, Some(0), &w.snap, &w.sc, &CmpOpts::default()) {
        Ok(()) => {
            run.count("restores_compared", 1);
            run.count("restores_of_versions_with_more_than_10000_hunks", 1);
            run.count("entries_compared", w.snap.len() as u64);
        }
        Err(m) => run.violation(m.class, format!("[{label}] {}", m.detail), replay),
    }
    }
}

pub fn run(tier: Tier, replay: Option<Value>) -> i32 {
    let run = Run::new("C01", "exploration", tier, replay.clone());
    let n = tier.pick(3000, 200000);
    if replay.as_ref().and_then(|r| r.get("many_hunks")).is_some() {
        super::alongside(&run, "the many-hunks case", || many_hunks(&run), || ());
        return run.finish("replay", &[], None, &[]);
    } else if replay.is_some() {
        run.par_cases(n, super::threads(), |case| one_case(&run, case));
    } else {
        super::alongside(&run, "the many-hunks case", || many_hunks(&run), || run.par_cases(n, super::threads(), |case| one_case(&run, case)));
    }
    run.finish(
        "one tree of 10 040 files with one entry per index hunk (two index subdirectories), then seeded generated trees (depth<=4; names with leading dots, bytes below/above '/', multi-byte; file sizes at 0/1/cap±1/block±1/2·block/3·block+7; duplicate and prefix contents; modes cycling through 0..0o7777; mtimes from {-2^31..2^33}s x {0,1,5e8,999999999,random}ns on files, dirs and symlinks; dangling/absolute/.. symlinks; hard links (every sixth case), a fifo and a socket (every sixth case); named owners; every 40th case additionally a wide and deep tree: 150-500 files and 40 subdirectories in one directory, names of 250 bytes, a chain of 30 nested directories) x option sets drawn from all 216 combinations (case 0: default options with incompressible files of 3 and 5 MiB, 21 MiB in the thorough tier); every fifth case runs on a 4-worker multi-thread runtime instead of the current-thread one; backup must be Ok with no error reported, restore into an empty directory must be Ok with no error and the lstat/readlink/read snapshot of the result must equal that of the source (bytes, kind, target, mtime ns incl. directories and root, mode&0o7777, uid/gid as root). Non-trivial = has a multi-block file, a combined block of >=2 files, a special mode bit, a pre-epoch or sub-second mtime, or a non-ASCII name; distinct by (tree signature, options).",
        &[
            "expected values are the snapshot of what the file system actually holds (tmpfs /dev/shm)",
            "release profile, debug assertions off",
        ],
        None,
        &[("restores_compared", 20), ("class_multi_block_file", 3), ("class_combined_block_2plus_files", 3), ("class_special_mode_bits", 3), ("restores_of_versions_with_more_than_10000_hunks", 2), ("cases_with_incompressible_files_of_several_mib", 1)],
    )
}
