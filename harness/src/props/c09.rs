//! C09 — validate is accurate: silent on healthy archives, loud on damage.

use serde_json::{Value, json};

use crate::cs;
use crate::fmt06;
use crate::damage::{self, Action, Damage, Subject};
use crate::history::{StepKind, World};
use crate::props::c02::headless_bands;
use crate::report::{Run, Tier, panic_site};
use crate::rng::{Rng, fnv};
use crate::tree::{self, CmpOpts, GenParams};

fn healthy_history(run: &Run, case: u64) {
    let mut rng = Rng::for_case(run.seed, case, 31);
    let block = *rng.pick(&[7usize, 64, 1000]);
    let cap = *rng.pick(&[0u64, 10, 64]);
    let mut p = GenParams::small(block, cap);
    p.target_entries = 5 + rng.below(10) as usize;
    p.max_plain_size = 4096;
    let mut w = World::new("c09h", &mut rng, p, run.seed ^ case);
    let n_steps = 6 + rng.below(run.tier.pick(10, 16)) as usize;
    let mut descs = Vec::new();
    // every third history has names of exactly 255 bytes, the longest the file system takes
    if case % 3 == 1 {
        let mut spec = w.spec.clone();
        crate::tree::add_longest_names(&mut spec, &mut rng, "/");
        w.set_spec(spec);
        descs.push("names of 255 bytes added".to_string());
        run.count("healthy_histories_with_255_byte_names", 1);
    }
    run.eval();
    for step in 0..n_steps {
        let rep = w.random_step(&mut rng);
        descs.push(rep.desc.clone());
        if rep.kind == StepKind::Mutate {
            continue;
        }
        if !headless_bands(&w.raw(false)).is_empty() {
            run.count("states_skipped_headless_band_dir", 1);
            continue;
        }
        for quick in [false, true] {
            // every third history validates on a 4-worker runtime (validate spawns a task per block)
            let workers = if case % 3 == 2 { 4 } else { 0 };
            let v = cs::with_workers(workers, || cs::validate(cs::local(&w.arch), quick));
            if workers > 0 {
                run.count("validations_on_a_multi_thread_runtime", 1);
            }
            run.count("healthy_validations", 1);
            let replay = json!({"healthy": true, "case": case, "step": step, "history": descs});
            // ... nor does a stale GC_LOCK make a healthy archive unhealthy
            if v.clean() && step % 4 == 1 {
                std::fs::write(w.arch.join("GC_LOCK"), b"{}\n").unwrap();
                let vl = cs::validate(cs::local(&w.arch), quick);
                std::fs::remove_file(w.arch.join("GC_LOCK")).unwrap();
                run.count("healthy_validations_with_a_stale_gc_lock", 1);
                if vl.panic.is_some() || !vl.clean() {
                    run.violation(
                        format!("false-alarm-on-healthy-archive-with-gc-lock-present:{}", if quick { "quick" } else { "full" }),
                        format!("after {}: with a GC_LOCK file present validate reported {}", rep.desc, vl.describe()),
                        replay,
                    );
                    return;
                }
            }
            if let Some(p) = &v.panic {
                run.violation(format!("validate-panic:{}", panic_site(p)), format!("after {}: {p}", rep.desc), replay);
                return;
            }
            if !v.clean() {
                run.violation(
                    format!("false-alarm-on-healthy-archive:{}", if quick { "quick" } else { "full" }),
                    format!("after {}: validate reported {}", rep.desc, v.describe()),
                    replay,
                );
                return;
            }
        }
        if rep.kind == StepKind::Interrupted && rep.new_band.is_some() {
            run.count("healthy_states_with_interrupted_band", 1);
        }
    }
    run.nontrivial(fnv(descs.join("|").as_bytes()));
    if std::env::var_os("CV_TRACE_SLOW").is_some() {
        eprintln!("healthy case {case}: {descs:?}");
    }
    run.sample(|| json!({"healthy_case": case, "history": descs}));
}

/// Does some version no longer restore as it did before the damage? Complete versions must
/// restore cleanly and exactly; an interrupted version (with header) is compared with its own
/// pre-damage restore, which may already have reported errors for entries without a directory.
fn harmful(s: &Subject, arch: &std::path::Path, base_errors: &std::collections::BTreeMap<u32, usize>, d: &Damage) -> Option<String> {
    // the last hunk of an incomplete band can vanish (or be emptied) without any trace in the
    // format: that state is what an earlier interruption leaves
    let raw = fmt06::read_archive(&s.world.arch, false);
    let traceless = matches!(d.action, Action::Delete | Action::Truncate0)
        && raw.bands.iter().any(|(id, b)| {
            !s.complete.contains(id)
                && b.hunks.keys().max().map(|m| d.relpath == format!("{}/{}", fmt06::band_dirname(*id), fmt06::hunk_relpath(*m))).unwrap_or(false)
        });
    for b in &s.bands {
        let complete = s.complete.contains(b);
        if !complete && traceless {
            continue;
        }
        let dest = s.world.sc.fresh("h");
        let out = damage::restore_outcome(arch, *b, &dest);
        let kind = if complete { "" } else { "interrupted " };
        let verdict = if out.panic.is_some() || !out.ok() {
            Some(format!("restore of {kind}b{b:04} fails: {}", out.describe()))
        } else if out.errors.len() > base_errors.get(b).copied().unwrap_or(0) {
            Some(format!("restore of {kind}b{b:04} reports errors: {}", out.describe()))
        } else {
            let actual = tree::snapshot(&dest).expect("snapshot");
            let d = tree::diff_snapshots(&s.expected[b], &actual, &CmpOpts::default());
            if d.is_empty() { None } else { Some(format!("restore of {kind}b{b:04} silently differs: {}", d[0].1)) }
        };
        crate::scratch::rm(&dest);
        if verdict.is_some() {
            return verdict;
        }
    }
    None
}

fn one_damage(run: &Run, s: &Subject, base_errors: &std::collections::BTreeMap<u32, usize>, case: u64, di: usize, d: &Damage) {
    let arch = damage::damaged_copy(s, d, run.seed);
    run.eval();
    run.count("damages_applied", 1);
    run.observe("damage_classes", d.class());
    let replay = json!({"case": case, "damage_index": di, "damage": d.desc(), "history": s.desc});
    let harm = harmful(s, &arch, base_errors, d);
    if let Some(why) = &harm {
        run.count("harmful_damages", 1);
        run.nontrivial(fnv(format!("{case}|{}", d.desc()).as_bytes()));
        // damage side: every second damaged archive is validated on a 4-worker runtime
        let workers = if crate::rng::fnv(d.desc().as_bytes()) % 2 == 0 { 4 } else { 0 };
        let full = cs::with_workers(workers, || cs::validate(cs::local(&arch), false));
        if let Some(p) = &full.panic {
            run.violation(format!("validate-panic:{}@{}", panic_site(p), d.class()), format!("{}: {p}", d.desc()), replay);
        } else if full.clean() {
            run.violation(
                format!("validate-silent-on-harmful-damage:{}", d.class()),
                format!("{}: {why}; but full validation reported nothing", d.desc()),
                replay,
            );
        } else {
            run.count("harmful_damages_reported_by_full_validate", 1);
            // a GC_LOCK left behind by a collector that was killed (or one at work) does not make
            // the damage any less reportable
            if crate::rng::fnv(d.desc().as_bytes()) % 3 == 0 {
                std::fs::write(arch.join("GC_LOCK"), b"{}\n").unwrap();
                let quick_too = d.action == Action::Delete;
                for quick in [false, true] {
                    if quick && !quick_too {
                        continue;
                    }
                    let v = cs::validate(cs::local(&arch), quick);
                    run.count("harmful_damages_validated_with_a_stale_gc_lock", 1);
                    if v.panic.is_none() && v.clean() {
                        run.violation(
                            format!("validate-silent-on-harmful-damage-with-gc-lock-present:{}", d.class()),
                            format!("{}: {why}; reported without GC_LOCK, but with a GC_LOCK file present {} validation reported nothing", d.desc(), if quick { "quick" } else { "full" }),
                            replay.clone(),
                        );
                        crate::scratch::rm(&arch);
                        return;
                    }
                }
                std::fs::remove_file(arch.join("GC_LOCK")).unwrap();
            }
            if d.action == Action::Delete {
                let q = cs::validate(cs::local(&arch), true);
                if q.panic.is_none() && q.clean() {
                    run.violation(
                        format!("quick-validate-silent-on-missing-file:{}", d.class()),
                        format!("{}: {why}; but quick validation reported nothing", d.desc()),
                        replay,
                    );
                } else {
                    run.count("missing_files_reported_by_quick_validate", 1);
                }
            }
        }
    } else {
        run.count("harmless_damages", 1);
    }
    crate::scratch::rm(&arch);
}

/// `cv c09-child <arch> <nofile>`: full validation in a process that may have only <nofile> file
/// descriptors open at a time (RLIMIT_NOFILE): validation reads blocks concurrently, and how many
/// files it holds open at once must not depend on how many blocks the archive has.
pub fn child(args: &[String]) -> i32 {
    let arch = std::path::PathBuf::from(&args[0]);
    let nofile: u64 = args[1].parse().unwrap();
    // SAFETY: plain libc calls on this process's own limits
    unsafe {
        let mut r = libc::rlimit { rlim_cur: 0, rlim_max: 0 };
        libc::getrlimit(libc::RLIMIT_NOFILE, &mut r);
        r.rlim_cur = nofile.min(r.rlim_max);
        if libc::setrlimit(libc::RLIMIT_NOFILE, &r) != 0 {
            println!("RESULT {}", json!({"harness_error": "setrlimit failed"}));
            return 3;
        }
    }
    let v = cs::validate(cs::local(&arch), false);
    println!("RESULT {}", json!({"clean": v.clean(), "panic": v.panic, "describe": v.describe().chars().take(400).collect::<String>()}));
    0
}

/// Scale: healthy archives with large blocks under default options -- a combined block that
/// overruns the 20 MiB block size by one small file (21 files of 1 000 000 bytes), a file of more
/// than one 20 MiB block, and 300 blocks of 64 bytes -- must validate silently, fully and quickly.
fn large_healthy(run: &Run) {
    for (label, o, files) in [
        ("default options", cs::Opts::DEFAULT, (0..21).map(|i| (format!("/s{i:02}"), 1_000_000usize)).chain([("/big".to_string(), (21usize << 20) + 5)]).collect::<Vec<_>>()),
        ("one block per file", cs::Opts { hunk: 100_000, block: 64, cap: 0 }, (0..300).map(|i| (format!("/f{i:03}"), 40usize)).collect::<Vec<_>>()),
    ] {
        let mut spec = crate::tree::Snapshot::new();
        spec.insert("/".into(), crate::tree::Node::dir());
        for (i, (name, size)) in files.iter().enumerate() {
            let mut n = crate::tree::Node::file(Rng::for_case(run.seed, i as u64, 3100).bytes(*size));
            n.mtime_s = 1_650_000_000 + i as i64;
            spec.insert(name.clone(), n);
        }
        let mut w = World::with_spec("c09big", spec, GenParams::small(64, 16), run.seed);
        run.eval();
        let r = w.backup(o);
        let replay = json!({"large_healthy": true, "label": label});
        if !r.backup.as_ref().unwrap().clean() {
            run.inconclusive(format!("large healthy archive ({label}): backup not clean: {}", r.backup.as_ref().unwrap().describe()));
            continue;
        }
        let raw = w.raw(true);
        run.count("large_healthy_archives", 1);
        run.count("blocks_in_large_healthy_archives", raw.blocks.len() as u64);
        if raw.blocks.values().any(|b| b.len.unwrap_or(0) > (20 << 20)) {
            run.count("healthy_archives_with_a_block_above_the_block_size", 1);
        }
        if raw.blocks.len() >= 250 {
            // the same full validation in a process limited to 160 open files
            let exe = std::env::current_exe().expect("exe");
            let outp = std::process::Command::new(&exe).arg("c09-child").arg(&w.arch).arg("160").output().expect("spawn child");
            let stdout = String::from_utf8_lossy(&outp.stdout);
            let rep: Option<Value> = stdout.lines().find_map(|l| l.strip_prefix("RESULT ")).and_then(|r| serde_json::from_str(r).ok());
            match rep {
                Some(r) if r.get("harness_error").is_none() => {
                    run.count("healthy_validations", 1);
                    run.count("healthy_validations_with_few_file_descriptors", 1);
                    if r["clean"].as_bool() != Some(true) {
                        run.violation(
                            "false-alarm-on-healthy-archive:full-with-few-file-descriptors",
                            format!("large healthy archive ({label}; {} blocks) validated in a process allowed 160 open files: {}", raw.blocks.len(), r["describe"]),
                            replay.clone(),
                        );
                        return;
                    }
                }
                _ => run.inconclusive(format!("validate child with a low file-descriptor limit did not report: {:?} {}", outp.status, String::from_utf8_lossy(&outp.stderr).lines().last().unwrap_or(""))),
            }
        }
        for quick in [false, true] {
            for workers in [0usize, 4] {
                let v = cs::with_workers(workers, || cs::validate(cs::local(&w.arch), quick));
                run.count("healthy_validations", 1);
                if let Some(p) = &v.panic {
                    run.violation(format!("validate-panic:{}", panic_site(p)), format!("large healthy archive ({label}): {p}"), replay.clone());
                    return;
                }
                if !v.clean() {
                    run.violation(
                        format!("false-alarm-on-healthy-archive:{}", if quick { "quick" } else { "full" }),
                        format!("large healthy archive ({label}; {} blocks, largest {} bytes): validate reported {}", raw.blocks.len(), raw.blocks.values().filter_map(|b| b.len).max().unwrap_or(0), v.describe()),
                        replay.clone(),
                    );
                    return;
                }
            }
        }
    }
}

pub fn run(tier: Tier, replay: Option<Value>) -> i32 {
    let run = Run::new("C09", "fault_enumeration", tier, replay.clone());
    let healthy_replay = replay.as_ref().and_then(|r| r.get("healthy")).is_some();
    if replay.as_ref().and_then(|r| r.get("large_healthy")).is_some() {
        large_healthy(&run);
        return run.finish("replay", &[], None, &[]);
    }
    // the damage side first: a healthy history can be slow (after its first version, at b99998,
    // is deleted every listing walks down a hundred thousand band numbers), and the soft time
    // budget must never be what leaves the damage side unobserved
    if !healthy_replay {
        let n = tier.pick(6u64, 200);
        for case in 0..n {
            if let Some(r) = &replay {
                if r.get("case").and_then(|c| c.as_u64()) != Some(case) {
                    continue;
                }
            }
            let s = damage::build_subject(run.seed, case, "c09");
            let damages = damage::all_damages(&s.world.arch, false, 8);
            let base_errors: std::collections::BTreeMap<u32, usize> = s
                .bands
                .iter()
                .map(|b| {
                    let dest = s.world.sc.fresh("b");
                    let out = damage::restore_outcome(&s.world.arch, *b, &dest);
                    crate::scratch::rm(&dest);
                    (*b, out.errors.len())
                })
                .collect();
            run.count("damaged_archives", 1);
            run.sample(|| json!({"case": case, "history": s.desc, "bands": s.bands, "complete": s.complete, "damages": damages.len()}));
            let only = replay.as_ref().and_then(|r| r.get("damage_index")).and_then(|d| d.as_u64()).map(|d| d as usize);
            let next = std::sync::atomic::AtomicUsize::new(0);
            std::thread::scope(|sc| {
                for _ in 0..super::threads() {
                    sc.spawn(|| loop {
                        let i = next.fetch_add(1, std::sync::atomic::Ordering::SeqCst);
                        if i >= damages.len() {
                            break;
                        }
                        if only.is_some() && only != Some(i) {
                            continue;
                        }
                        if run.out_of_time() {
                            run.count("damages_skipped_by_time_budget", 1);
                            continue;
                        }
                        if let Err(m) = crate::report::guard(|| one_damage(&run, &s, &base_errors, case, i, &damages[i])) {
                            run.inconclusive(format!("harness error: {m}"));
                        }
                    });
                }
            });
        }
    }
    if replay.is_none() {
        super::alongside(&run, "the large healthy archives", || large_healthy(&run), || run.par_cases(tier.pick(120, 5000), super::threads(), |c| healthy_history(&run, c)));
    } else if healthy_replay {
        run.par_cases(tier.pick(120, 5000), super::threads(), |c| healthy_history(&run, c));
    }
    let needs: &[(&str, u64)] = if replay.is_some() { &[] } else {
        &[("healthy_validations", 100), ("healthy_states_with_interrupted_band", 3), ("damages_applied", 200), ("harmful_damages", 50), ("harmless_damages", 5), ("large_healthy_archives", 2), ("healthy_validations_with_few_file_descriptors", 1), ("harmful_damages_validated_with_a_stale_gc_lock", 20), ("healthy_archives_with_a_block_above_the_block_size", 1), ("healthy_histories_with_255_byte_names", 10)]
    };
    run.finish(
        "every third healthy history has names of exactly 255 bytes (ASCII, 85 three-byte characters, a directory with a file inside); a third of the harmful damages (and a quarter of the healthy states) are validated once more with a GC_LOCK file left in the archive: the verdicts must not change; two large healthy archives (default options: 21 files of 1 000 000 bytes, i.e. a combined block above the 20 MiB block size, plus a file of more than one block; 300 one-file blocks) validated fully and quickly on both runtime flavours, the 300-block one also in a child process limited to 160 open files (RLIMIT_NOFILE); (every third healthy history and every second damaged archive is validated on a 4-worker multi-thread runtime) healthy side: histories as in C02 (completed and interrupted-with-header backups, deletes, gcs; states with a head-less band directory skipped); after every archive-changing step full and quick validation must return Ok and report nothing. Damage side: archives with 2-4 bands (complete, interrupted in the middle, interrupted newest) sharing blocks; EVERY file except CONSERVE x {delete (not for BANDTAIL), truncate to 0, truncate to half, overwrite with seeded garbage} and 8 seeded bit flips per block; a damage is harmful when some version's restore by id fails, reports (more) errors or differs from its pre-damage result (interrupted versions with a header included; only the vanished or emptied last hunk of an interrupted band is exempt, because that state is exactly what an interruption leaves); every harmful damage must make full validation report >= 1 error, and every harmful deletion quick validation too. Distinct = (archive, damaged file, action) that is harmful.",
        &["the last hunk of an incomplete band can vanish without any format-level trace: exempt", "E1 walker decides 'restores exactly'"],
        Some(true),
        needs,
    )
}
