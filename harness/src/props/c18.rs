//! C18 — diff and change reports agree with the real differences.

use std::collections::{BTreeMap, BTreeSet};
use std::sync::{Arc, Mutex};

use serde_json::{Value, json};

use crate::cs::{self, Opts};
use crate::oracle::apath_cmp;
use crate::report::{Run, Tier, panic_site};
use crate::rng::{Rng, fnv};
use crate::scratch::Scratch;
use crate::tree::{self, Clock, GenParams, GenState, Kind, Node, Snapshot};

/// Ids without a passwd / group entry. Owners are recorded by name, so such an id is recorded
/// as "no name": two different unnamed ids are the same owner as far as diff can know.
const UNNAMED_UID: u32 = 54_321;
const UNNAMED_GID: u32 = 54_322;

fn owner_key(n: &Node) -> (Option<u32>, Option<u32>) {
    let (u, g) = tree::named_ids();
    (
        if u.contains(&n.uid) || n.uid != UNNAMED_UID { Some(n.uid) } else { None },
        if g.contains(&n.gid) || n.gid != UNNAMED_GID { Some(n.gid) } else { None },
    )
}

fn classify(a: Option<&Node>, b: Option<&Node>) -> char {
    match (a, b) {
        (None, Some(_)) => '+',
        (Some(_), None) => '-',
        (Some(a), Some(b)) => {
            let changed = a.kind != b.kind
                || owner_key(a) != owner_key(b)
                || (a.kind != Kind::Symlink && a.mode != b.mode)
                || (a.kind == Kind::File && (a.content.len() != b.content.len() || (a.mtime_s, a.mtime_ns) != (b.mtime_s, b.mtime_ns)))
                || (a.kind == Kind::Symlink && a.target != b.target);
            if changed { '*' } else { '.' }
        }
        (None, None) => unreachable!(),
    }
}

fn expected_diff(s0: &Snapshot, s1: &Snapshot, include_unchanged: bool) -> Vec<(String, char)> {
    let mut paths: Vec<&String> = s0.keys().chain(s1.keys()).collect::<BTreeSet<_>>().into_iter().collect();
    paths.sort_by(|a, b| apath_cmp(a, b));
    paths
        .into_iter()
        .map(|p| (p.clone(), classify(s0.get(p), s1.get(p))))
        .filter(|(_, c)| include_unchanged || *c != '.')
        .collect()
}

fn one_case(run: &Run, case: u64) {
    let mut rng = Rng::for_case(run.seed, case, 17);
    let o = Opts::DEFAULT;
    let mut p = GenParams::small(64, 16);
    p.target_entries = 6 + rng.below(14) as usize;
    p.max_plain_size = 300;
    p.hostile_mtimes = case % 3 == 0;
    let mut st = GenState { mode_cursor: rng.below(4096) as u32 };
    let mut spec = tree::gen_tree(&mut rng, &p, &mut st);
    // owners of which only the user or only the group has a name (root only)
    let unnamed_ok = tree::is_root() && !tree::named_ids().0.contains(&UNNAMED_UID) && !tree::named_ids().1.contains(&UNNAMED_GID);
    if unnamed_ok && rng.chance(1, 3) {
        let keys: Vec<String> = spec.keys().filter(|k| k.as_str() != "/").cloned().collect();
        for _ in 0..2 {
            if let Some(k) = keys.get(rng.below(keys.len().max(1) as u64) as usize) {
                let n = spec.get_mut(k).unwrap();
                match rng.below(3) {
                    0 => n.uid = UNNAMED_UID,
                    1 => n.gid = UNNAMED_GID,
                    _ => {
                        n.uid = UNNAMED_UID;
                        n.gid = UNNAMED_GID;
                    }
                }
                run.count("entries_with_an_unnamed_user_or_group", 1);
            }
        }
    }
    let sc = Scratch::new("c18");
    let src = sc.join("src");
    tree::sync_to_disk(None, &spec, &src).expect("materialise");
    let s0 = tree::snapshot(&src).expect("snapshot");
    let arch = sc.join("arch");
    cs::create_archive(&arch);
    let replay = json!({"case": case});
    run.eval();
    let b = cs::backup(cs::local(&arch), &src, o, &[], None);
    if !b.clean() {
        run.violation("backup-failed", b.describe(), replay);
        return;
    }
    // every fourth case: one SourceTree handle, opened for the first comparison, is kept and used
    // for all later ones while the tree changes underneath (a long-running program built on the
    // library); those cases also change the mode of the top directory itself
    struct Unhold;
    impl Drop for Unhold {
        fn drop(&mut self) {
            cs::hold_source(false);
        }
    }
    let held_source = case % 4 == 2;
    let _unhold = Unhold;
    if held_source {
        cs::hold_source(true);
        run.count("cases_with_one_source_handle_kept_across_the_changes", 1);
    }
    // 1. against the very tree it was made from
    for inc in [false, true] {
        let d = cs::diff(cs::local(&arch), Some(0), &src, inc, &[]);
        if let Some(p) = &d.panic {
            run.violation(format!("diff-panic:{}", panic_site(p)), p.clone(), replay);
            return;
        }
        let Some(got) = d.value() else {
            run.violation("diff-failed", d.describe(), replay);
            return;
        };
        let want = expected_diff(&s0, &s0, inc);
        run.count("diffs_compared", 1);
        if got != &want {
            let wrong: Vec<&(String, char)> = got.iter().filter(|g| g.1 != '.').take(4).collect();
            run.violation(
                "diff-against-own-source-reports-change",
                format!("include_unchanged={inc}: {wrong:?} (got {} entries, want {})", got.len(), want.len()),
                replay,
            );
            return;
        }
    }
    // 2. after mutations
    let mut clock = Clock::new();
    let mut grave = Vec::new();
    let old = spec.clone();
    let n_mut = 1 + rng.below(6) as usize;
    let mut descs = Vec::new();
    for _ in 0..n_mut {
        descs.push(tree::mutate(&mut rng, &mut spec, &mut clock, &p, &mut st, &mut grave));
    }
    // a kind swap that keeps mode and owner (so only the kind distinguishes old and new):
    // dir -> file, dir -> symlink (for a 0777 directory), file -> dir, symlink -> file/dir
    if rng.chance(1, 2) {
        let keys: Vec<String> = spec.keys().filter(|k| k.as_str() != "/").cloned().collect();
        if !keys.is_empty() {
            let k = rng.pick(&keys).clone();
            let old_node = spec[&k].clone();
            let under: Vec<String> = spec.keys().filter(|p| tree::is_under(p, &k)).cloned().collect();
            for p in under {
                spec.remove(&p);
            }
            let mut n = match old_node.kind {
                Kind::Dir => {
                    if old_node.mode == 0o777 || rng.chance(1, 3) {
                        tree::Node::symlink("swapped-target")
                    } else {
                        tree::Node::file(tree::gen_content(&mut rng, 7))
                    }
                }
                Kind::File => tree::Node::dir(),
                Kind::Symlink => {
                    if rng.chance(1, 2) { tree::Node::file(tree::gen_content(&mut rng, 5)) } else { tree::Node::dir() }
                }
            };
            // symlinks always stat as 0777: give the other side that mode when one is involved
            n.mode = if n.kind == Kind::Symlink || old_node.kind == Kind::Symlink { 0o777 } else { old_node.mode };
            n.uid = old_node.uid;
            n.gid = old_node.gid;
            (n.mtime_s, n.mtime_ns) = clock.next(&mut rng);
            descs.push(format!("kind swap keeping mode and owner: {k} {:?} -> {:?}", old_node.kind, n.kind));
            spec.insert(k, n);
        }
    }
    if held_source || rng.chance(1, 8) {
        let n = spec.get_mut("/").unwrap();
        let m = *rng.pick(&[0o700u32, 0o750, 0o711, 0o775, 0o1777]);
        if m != n.mode {
            n.mode = m;
            descs.push(format!("chmod {m:o} of the top directory"));
            run.count("changes_of_the_top_directory_itself", 1);
        }
    }
    // chown mutation (root only)
    if tree::is_root() && rng.chance(1, 3) {
        let keys: Vec<String> = spec.keys().filter(|k| k.as_str() != "/").cloned().collect();
        if !keys.is_empty() {
            let k = rng.pick(&keys).clone();
            let (u, g) = tree::named_ids();
            let n = spec.get_mut(&k).unwrap();
            let (mut nu, mut ng) = (*rng.pick(u), *rng.pick(g));
            if unnamed_ok && rng.chance(1, 3) {
                if rng.chance(1, 2) { nu = UNNAMED_UID } else { ng = UNNAMED_GID }
            }
            if (nu, ng) != (n.uid, n.gid) {
                n.uid = nu;
                n.gid = ng;
                descs.push(format!("chown {k}"));
            }
        }
    }
    // a regular file replaced by a fifo is a deleted file as far as a backup is concerned; a fifo
    // or socket that appears is nothing at all
    let mut fifo_for: Option<String> = None;
    if case % 5 == 3 {
        fifo_for = spec.iter().find(|(p, n)| n.kind == Kind::File && old.get(*p).map(|o| o.kind == Kind::File).unwrap_or(false)).map(|(p, _)| p.clone());
        if let Some(p) = &fifo_for {
            spec.remove(p);
            descs.push(format!("{p} replaced by a fifo; a fifo and a socket appear at the top"));
        }
    }
    tree::sync_to_disk(Some(&old), &spec, &src).expect("sync");
    if let Some(p) = &fifo_for {
        let c = std::ffi::CString::new(src.join(&p[1..]).to_string_lossy().as_bytes()).unwrap();
        // SAFETY: plain libc call with a valid NUL-terminated path
        unsafe { libc::mkfifo(c.as_ptr(), 0o644) };
        tree::add_special_files(&src, "/");
        run.count("trees_with_fifos_and_sockets", 1);
    }
    let s1 = tree::snapshot(&src).expect("snapshot");
    let replay = json!({"case": case, "mutations": descs});
    let mut want_plain = Vec::new();
    for inc in [false, true] {
        let d = cs::diff(cs::local(&arch), Some(0), &src, inc, &[]);
        if let Some(p) = &d.panic {
            run.violation(format!("diff-panic:{}", panic_site(p)), p.clone(), replay);
            return;
        }
        let Some(got) = d.value() else {
            run.violation("diff-failed", d.describe(), replay);
            return;
        };
        let want = expected_diff(&s0, &s1, inc);
        run.count("diffs_compared", 1);
        if got != &want {
            let gm: BTreeMap<&String, char> = got.iter().map(|(p, c)| (p, *c)).collect();
            let wm: BTreeMap<&String, char> = want.iter().map(|(p, c)| (p, *c)).collect();
            let mut wrong = Vec::new();
            for k in gm.keys().chain(wm.keys()).collect::<BTreeSet<_>>() {
                if gm.get(*k) != wm.get(*k) {
                    wrong.push(format!("{k}: reported {:?}, real {:?}", gm.get(*k), wm.get(*k)));
                }
            }
            let class = if wrong.is_empty() { "order".to_string() } else {
                // name the kind of disagreement by the real classification of the first one
                let k = gm.keys().chain(wm.keys()).collect::<BTreeSet<_>>().into_iter().find(|k| gm.get(**k) != wm.get(**k)).unwrap();
                format!("real{}reported{}", wm.get(*k).copied().unwrap_or('_'), gm.get(*k).copied().unwrap_or('_'))
            };
            run.violation(
                format!("diff-differs-from-real-differences:{class}"),
                format!("include_unchanged={inc} after {descs:?}: {}", wrong.iter().take(5).cloned().collect::<Vec<_>>().join("; ")),
                replay,
            );
            return;
        }
        if !inc {
            want_plain = want;
        }
    }
    // the same comparison with an exclusion: the differences that remain are those of the paths
    // the exclusion keeps (a path is excluded if it or a directory above it matches)
    if let Some((p0, _)) = want_plain.first() {
        let base = p0.rsplit('/').next().unwrap().to_string();
        if !base.is_empty() && !base.contains(['[', ']', '{', '}', '*', '?', '\\', '!']) {
            let excl = vec![base];
            let gm = crate::oracle::GlobModel::new(&excl);
            let want: Vec<(String, char)> = want_plain.iter().filter(|(p, _)| !gm.excluded(p)).cloned().collect();
            let d = cs::diff(cs::local(&arch), Some(0), &src, false, &excl);
            run.count("diffs_compared", 1);
            run.count("diffs_with_an_exclusion_compared", 1);
            if d.value() != Some(&want) {
                run.violation(
                    "diff-with-exclusion-differs-from-real-differences",
                    format!("after {descs:?}, exclude {excl:?}: real differences among the kept paths {want:?}, reported {}", d.value().map(|v| format!("{v:?}")).unwrap_or_else(|| d.describe())),
                    replay,
                );
                return;
            }
        }
    }
    for (_, c) in &want_plain {
        run.count(&format!("real_changes_{}", match c { '+' => "added", '-' => "deleted", _ => "changed" }), 1);
    }
    if want_plain.len() >= 2 {
        run.nontrivial(fnv(format!("{:?}", want_plain).as_bytes()));
    }
    run.sample(|| json!({"case": case, "mutations": descs, "diff": want_plain}));
    // 3. the next backup's change callback names the same added / changed / deleted files
    let changes: cs::Changes = Arc::new(Mutex::new(Vec::new()));
    let b = cs::backup(cs::local(&arch), &src, o, &[], Some(changes.clone()));
    if !b.clean() {
        run.violation("second-backup-failed", b.describe(), replay);
        return;
    }
    let cb = changes.lock().unwrap().clone();
    let is_file1 = |p: &String| s1.get(p).map(|n| n.kind == Kind::File).unwrap_or(false);
    let was_file0 = |p: &String| s0.get(p).map(|n| n.kind == Kind::File).unwrap_or(false);
    let pick = |v: &[(String, char)], c: char, f: &dyn Fn(&String) -> bool| -> BTreeSet<String> {
        v.iter().filter(|(p, x)| *x == c && f(p)).map(|(p, _)| p.clone()).collect()
    };
    for (name, c, f) in [("added", '+', &is_file1 as &dyn Fn(&String) -> bool), ("changed", '*', &is_file1), ("deleted", '-', &was_file0)] {
        let from_diff = pick(&want_plain, c, f);
        let from_cb = pick(&cb, c, f);
        run.count("callback_sets_compared", 1);
        if from_diff != from_cb {
            run.violation(
                format!("backup-callback-{name}-files-differ-from-diff"),
                format!("after {descs:?}: diff says {from_diff:?}, backup callback says {from_cb:?}"),
                replay,
            );
            return;
        }
    }
}

/// Scale: diff of a version with more than 10 000 index hunks against its own tree and
/// against the tree after changes on both sides of the index-subdirectory boundary.
fn many_hunks(run: &Run) {
    let mut w = crate::history::many_hunks_world("c18big", run.seed);
    let o = crate::history::MANY_HUNKS_OPTS;
    run.eval();
    let replay = json!({"many_hunks": true});
    if !w.backup(o).backup.unwrap().clean() {
        run.inconclusive("many-hunks backup not clean");
        return;
    }
    let s0 = w.snap.clone();
    let d = cs::diff(cs::local(&w.arch), Some(0), &w.src, false, &[]);
    run.count("diffs_compared", 1);
    match d.value() {
        Some(got) if got.is_empty() => {}
        _ => {
            run.violation("diff-against-own-source-reports-change", format!("[10 040-file tree, 1 entry per hunk] {}", d.describe().chars().take(300).collect::<String>()), replay);
            return;
        }
    }
    let mut spec = w.spec.clone();
    for i in [3u32, 9_999, 10_000, 10_039] {
        let mut n = Node::file(format!("changed {i}").into_bytes());
        n.mtime_s = 1_700_000_000 + i as i64;
        spec.insert(format!("/f{i:05}"), n);
    }
    spec.remove("/f00007");
    spec.remove("/f10001");
    spec.insert("/zlast".into(), Node::file(b"new".to_vec()));
    w.set_spec(spec);
    let want = expected_diff(&s0, &w.snap, false);
    let d = cs::diff(cs::local(&w.arch), Some(0), &w.src, false, &[]);
    run.count("diffs_compared", 1);
    if d.value() != Some(&want) {
        run.violation(
            "diff-differs-from-real-differences:many-hunks",
            format!("[10 040-file tree, 1 entry per hunk] real differences {want:?}, reported {}", d.value().map(|v| format!("{:?}", v.iter().take(12).collect::<Vec<_>>())).unwrap_or_else(|| d.describe())),
            replay,
        );
        return;
    }
    run.count("diffs_of_versions_with_more_than_10000_hunks", 2);
}

pub fn run(tier: Tier, replay: Option<Value>) -> i32 {
    let run = Run::new("C18", "exploration", tier, replay.clone());
    if replay.as_ref().and_then(|r| r.get("many_hunks")).is_some() {
        many_hunks(&run);
        return run.finish("replay", &[], None, &[]);
    }
    if replay.is_none() {
        super::alongside(&run, "the many-hunks diff", || many_hunks(&run), || run.par_cases(tier.pick(2500, 250000), super::threads(), |c| one_case(&run, c)));
    } else {
        run.par_cases(tier.pick(2500, 250000), super::threads(), |c| one_case(&run, c));
    }
    run.finish(
        "generated trees S0 backed up with default options; diff(version, S0) must be empty (and all-unchanged with include_unchanged); then 1-6 mutations (content with new mtime or size, mtime only, chmod, chown as root, file<->dir swaps, add/remove/rename of files, dirs and symlinks, retargeted links; in every fifth case a file is replaced by a fifo and a fifo and a socket appear: special files are not part of a backup, so that is one deleted file) give S1 and diff(version, S1) must equal, in apath order and with the right sigil, the classification computed from the two lstat snapshots (added / deleted / changed iff kind, owner, mode, file size or mtime, or link target differ; owners compare by name, an id without a name being 'no name': trees and chown mutations include owners of which only the user or only the group has a name); the same diff with one exclusion (the name of the first changed path) must report the differences of the kept paths; the next backup's change callback, restricted to files, must name the same added, changed and deleted sets. In every fourth case ONE SourceTree handle is opened for the first comparison and kept for all later ones while the tree changes underneath; those cases (and one in eight of the others) also change the mode of the top directory itself. Also one version of 10 040 files with one entry per hunk, diffed against its own tree and after changes on both sides of the index-subdirectory boundary. Non-trivial = >= 2 real differences; distinct by the difference list.",
        &["directory and symlink mtimes are not significant (as in the statement)"],
        None,
        &[("diffs_compared", 100), ("real_changes_added", 10), ("real_changes_deleted", 10), ("real_changes_changed", 10), ("callback_sets_compared", 50), ("diffs_of_versions_with_more_than_10000_hunks", 2), ("cases_with_one_source_handle_kept_across_the_changes", 20), ("changes_of_the_top_directory_itself", 20)],
    )
}
