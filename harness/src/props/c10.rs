//! C10 — damage to one stored file is contained and never crashes the tool.
//! Every damaged archive is handed to a child process, so that aborts (allocation failure,
//! sanitizer reports) are observed like any other crash.

use std::collections::BTreeMap;
use std::io::Read;
use std::path::{Path, PathBuf};
use std::process::{Command, Stdio};
use std::time::{Duration, Instant};

use conserve::monitor::test::TestMonitor;
use conserve::{BandId, BandSelectionPolicy, Exclude};
use serde_json::{Value, json};

use crate::cs::{self, Opts};
use crate::damage::{self, Action, Damage, Subject};
use crate::fmt06;
use crate::icept::{Icept, Mode};
use crate::props::c03::path_class;
use crate::report::{Run, Tier};
use crate::rng::fnv;
use crate::tree::{self, CmpOpts, Snapshot};

// ---------------------------------------------------------------------------
// child

fn op(name: &str) {
    println!("OP {name}");
}

fn summarise<T>(o: &cs::Outcome<T>) -> Value {
    json!({
        "ok": o.ok(),
        "err": match &o.result { Some(Err(e)) => Some(e.clone()), _ => None },
        "errors": o.errors.len(),
        "error_text": o.errors.iter().take(300).collect::<Vec<_>>(),
    })
}

/// `cv c10-child <arch> <src> <out> <hunk> <block> <cap> <budget>`
pub fn child(args: &[String]) -> i32 {
    std::panic::set_hook(Box::new(|info| {
        let msg = if let Some(s) = info.payload().downcast_ref::<&str>() {
            s.to_string()
        } else if let Some(s) = info.payload().downcast_ref::<String>() {
            s.clone()
        } else {
            "panic".into()
        };
        let loc = info.location().map(|l| format!("{}:{}", l.file(), l.line())).unwrap_or_default();
        println!("PANIC {} @ {}", msg.replace('\n', " "), loc);
        std::process::exit(101);
    }));
    let arch = PathBuf::from(&args[0]);
    let src = PathBuf::from(&args[1]);
    let out = PathBuf::from(&args[2]);
    let o = Opts { hunk: args[3].parse().unwrap(), block: args[4].parse().unwrap(), cap: args[5].parse().unwrap() };
    let budget: usize = args[6].parse().unwrap();
    let ic = Icept::with_budget(&arch, Mode::Log, 0, budget);
    let mut report = serde_json::Map::new();
    // `hold <relpath> <action> <seed>`: the archive given is still undamaged; one Archive handle
    // is opened, used for a listing, a quick validation and a restore, and kept; then the
    // damage happens; then everything below runs through that same handle
    if args.get(7).map(|a| a == "hold").unwrap_or(false) {
        cs::hold_handle(true);
        op("before the damage: list, validate, restore through the handle that is kept");
        let _ = cs::list(ic.transport(1), None, "/", &[]);
        let _ = cs::validate(ic.transport(1), true);
        let _ = cs::restore(ic.transport(1), None, &out.join("pre"), None, &[], false);
        let d = Damage { relpath: args[8].clone(), action: Action::parse(&args[9]).expect("action") };
        damage::apply(&arch, &d, args[10].parse().unwrap());
    }
    // 1. versions
    op("versions");
    let t = ic.transport(1);
    let versions: Result<Vec<u32>, String> = cs::block_on(async {
        let archive = cs::open_archive(t).await?;
        let ids = archive.list_band_ids().await.map_err(cs::errstr)?;
        let mut v = Vec::new();
        for id in ids {
            v.push(id.to_string().trim_start_matches('b').parse::<u32>().unwrap());
            // what `conserve versions` looks at
            if let Ok(band) = conserve::Band::open(&archive, id).await {
                if let Ok(info) = band.get_info().await {
                    let _ = info.start_time.to_zoned(jiff_utc());
                    let _ = info.end_time.map(|e| e - info.start_time);
                }
                let _ = band.is_closed().await;
            }
            if let Ok(st) = archive.open_stored_tree(BandSelectionPolicy::Specified(id)).await {
                let _ = st.size(Exclude::nothing(), TestMonitor::arc()).await;
            }
        }
        let _ = archive.last_complete_band().await;
        Ok(v)
    });
    report.insert("versions".into(), json!(versions));
    let ids = versions.unwrap_or_default();
    // 2. list + restore of every band
    let mut per_band = serde_json::Map::new();
    for id in &ids {
        op(&format!("list b{id:04}"));
        let l = cs::list(ic.transport(1), Some(*id), "/", &[]);
        op(&format!("restore b{id:04}"));
        let r = cs::restore(ic.transport(1), Some(*id), &out.join(format!("b{id:04}")), None, &[], false);
        // the same version restricted to a subtree: up to four directories directly below the
        // root that the (possibly damaged) whole listing still shows something of
        let mut subs = Vec::new();
        let mut tops: Vec<String> = Vec::new();
        for e in l.value().map(|v| v.as_slice()).unwrap_or(&[]) {
            let mut parts = e.apath[1..].split('/');
            if let (Some(first), Some(_)) = (parts.next(), parts.next()) {
                let top = format!("/{first}");
                if !tops.contains(&top) {
                    tops.push(top);
                }
            }
        }
        for (k, top) in tops.iter().take(4).enumerate() {
            op(&format!("list b{id:04} subtree"));
            let sl = cs::list(ic.transport(1), Some(*id), top, &[]);
            let mut one = json!({"subtree": top, "list": summarise(&sl), "listed": sl.value().map(|v| v.iter().map(|e| e.apath.clone()).collect::<Vec<_>>())});
            if k == 0 {
                op(&format!("restore b{id:04} subtree"));
                let sr = cs::restore(ic.transport(1), Some(*id), &out.join(format!("sub-b{id:04}")), Some(top), &[], false);
                one["restore"] = summarise(&sr);
            }
            subs.push(one);
        }
        per_band.insert(id.to_string(), json!({"list": summarise(&l), "listed": l.value().map(|v| v.len()), "restore": summarise(&r), "subtrees": subs}));
    }
    report.insert("bands".into(), Value::Object(per_band));
    // 3. validate
    op("validate full");
    report.insert("validate_full".into(), summarise(&cs::validate(ic.transport(1), false)));
    op("validate quick");
    report.insert("validate_quick".into(), summarise(&cs::validate(ic.transport(1), true)));
    // 4. a new backup and its restore
    op("backup");
    let b = cs::backup(ic.transport(1), &src, o, &[], None);
    let mut bs = summarise(&b);
    bs["stats_errors"] = json!(b.value().map(|s| s.errors));
    report.insert("backup".into(), bs);
    let raw = fmt06::read_archive(&arch, false);
    let newest = raw.bands.keys().max().copied();
    if let Some(n) = newest {
        if !ids.contains(&n) {
            op("restore new");
            let r = cs::restore(ic.transport(1), Some(n), &out.join("new"), None, &[], false);
            report.insert("new_band".into(), json!({"id": n, "complete": raw.bands[&n].complete(), "restore": summarise(&r)}));
        }
    }
    report.insert("storage_ops".into(), json!(ic.n_ops()));
    println!("RESULT {}", Value::Object(report));
    let _ = BandId::zero();
    0
}

fn jiff_utc() -> jiff::tz::TimeZone {
    jiff::tz::TimeZone::UTC
}

// ---------------------------------------------------------------------------
// parent

pub struct ChildRun {
    pub status: String,
    pub last_op: String,
    pub panic: Option<String>,
    pub report: Option<Value>,
    pub timed_out: bool,
    pub stderr_tail: String,
}

pub fn run_child(exe: &Path, wrapper: &[&str], arch: &Path, src: &Path, out: &Path, o: Opts, budget: usize, timeout: Duration) -> ChildRun {
    run_child_with(exe, wrapper, arch, src, out, o, budget, timeout, &[])
}

pub fn run_child_with(exe: &Path, wrapper: &[&str], arch: &Path, src: &Path, out: &Path, o: Opts, budget: usize, timeout: Duration, extra: &[String]) -> ChildRun {
    let mut cmd = if wrapper.is_empty() {
        Command::new(exe)
    } else {
        let mut c = Command::new(wrapper[0]);
        c.args(&wrapper[1..]).arg(exe);
        c
    };
    cmd.arg("c10-child")
        .arg(arch)
        .arg(src)
        .arg(out)
        .arg(o.hunk.to_string())
        .arg(o.block.to_string())
        .arg(o.cap.to_string())
        .arg(budget.to_string())
        .args(extra)
        .stdout(Stdio::piped())
        .stderr(Stdio::piped());
    let mut ch = cmd.spawn().expect("spawn child");
    let mut so = ch.stdout.take().unwrap();
    let mut se = ch.stderr.take().unwrap();
    let t_out = std::thread::spawn(move || {
        let mut s = String::new();
        let _ = so.read_to_string(&mut s);
        s
    });
    let t_err = std::thread::spawn(move || {
        let mut s = String::new();
        let _ = se.read_to_string(&mut s);
        s
    });
    let start = Instant::now();
    let mut timed_out = false;
    let status = loop {
        match ch.try_wait() {
            Ok(Some(st)) => break st,
            Ok(None) => {
                if start.elapsed() > timeout {
                    let _ = ch.kill();
                    timed_out = true;
                    break ch.wait().unwrap();
                }
                std::thread::sleep(Duration::from_millis(2));
            }
            Err(e) => panic!("wait: {e}"),
        }
    };
    let stdout = t_out.join().unwrap_or_default();
    let stderr = t_err.join().unwrap_or_default();
    let mut last_op = String::new();
    let mut panic = None;
    let mut report = None;
    for l in stdout.lines() {
        if let Some(o) = l.strip_prefix("OP ") {
            last_op = o.to_string();
        } else if let Some(p) = l.strip_prefix("PANIC ") {
            panic = Some(p.to_string());
        } else if let Some(r) = l.strip_prefix("RESULT ") {
            report = serde_json::from_str(r).ok();
        }
    }
    use std::os::unix::process::ExitStatusExt;
    let status_s = match (status.code(), status.signal()) {
        (Some(c), _) => format!("exit {c}"),
        (None, Some(s)) => format!("signal {s}"),
        _ => "unknown".into(),
    };
    let tail: String = stderr.lines().rev().take(12).collect::<Vec<_>>().into_iter().rev().collect::<Vec<_>>().join(" | ");
    ChildRun { status: status_s, last_op, panic, report, timed_out, stderr_tail: tail }
}

fn mask_out(text: &str, out: &Path) -> String {
    text.replace(&*out.to_string_lossy(), "<OUT>")
}

fn op_class(op: &str) -> String {
    op.split_whitespace().next().unwrap_or("none").to_string()
}

fn is_highest_hunk_of_incomplete_band(s: &Subject, raw: &fmt06::Raw, relpath: &str) -> bool {
    for (id, b) in &raw.bands {
        if s.complete.contains(id) {
            continue;
        }
        if let Some(max) = b.hunks.keys().max() {
            if relpath == format!("{}/{}", fmt06::band_dirname(*id), fmt06::hunk_relpath(*max)) {
                return true;
            }
        }
    }
    false
}

fn judge(run: &Run, s: &Subject, raw_pre: &fmt06::Raw, base_errors: &BTreeMap<u32, Vec<String>>, d: &Damage, arch: &Path, out: &Path, cr: &ChildRun, replay: &Value) {
    let dc = d.class();
    // 1. terminated normally
    if cr.timed_out {
        run.inconclusive(format!("watchdog: child exceeded the wall-clock limit during '{}' ({})", cr.last_op, d.desc()));
        return;
    }
    if let Some(p) = &cr.panic {
        if p.contains("cv: storage operation budget") {
            run.violation(format!("unbounded-storage-loop:{}@{dc}", op_class(&cr.last_op)), format!("{}: during '{}'", d.desc(), cr.last_op), replay.clone());
        } else {
            let site = crate::report::panic_site(p);
            run.violation(format!("crash:panic:{site}@{dc}"), format!("{}: during '{}': {p}", d.desc(), cr.last_op), replay.clone());
        }
        return;
    }
    if cr.status == "exit 99" {
        run.violation(
            format!("memcheck-report:{}@{dc}", op_class(&cr.last_op)),
            format!("{}: valgrind memcheck reported an invalid memory access; stderr: {}", d.desc(), cr.stderr_tail),
            replay.clone(),
        );
        return;
    }
    let Some(rep) = &cr.report else {
        run.violation(
            format!("crash:{}:{}@{dc}", cr.status.replace(' ', "-"), op_class(&cr.last_op)),
            format!("{}: child ended with {} during '{}'; stderr: {}", d.desc(), cr.status, cr.last_op, cr.stderr_tail),
            replay.clone(),
        );
        return;
    };
    run.count("children_completed", 1);
    // 2. containment per version that still opens
    let unreadable = damage::unreadable_now(arch, &d.relpath);
    let decodable_hunk = path_class(&d.relpath) == "hunk" && !unreadable;
    // deleting or emptying the last hunk of an incomplete band leaves exactly what an earlier
    // interruption (resp. a torn write) leaves
    let vanished_tail_hunk = matches!(d.action, Action::Delete | Action::Truncate0) && is_highest_hunk_of_incomplete_band(s, raw_pre, &d.relpath);
    for b in &s.bands {
        let Some(br) = rep["bands"].get(b.to_string()) else {
            // not listed any more (its directory is still there: only files are damaged)
            run.violation(format!("version-not-listed@{dc}"), format!("{}: b{b:04} missing from the version list", d.desc()), replay.clone());
            return;
        };
        let restore_ok = br["restore"]["ok"].as_bool().unwrap_or(false);
        let own_head = format!("{}/BANDHEAD", fmt06::band_dirname(*b));
        if !restore_ok {
            if d.relpath != own_head {
                run.violation(
                    format!("undamaged-version-does-not-open@{dc}"),
                    format!("{}: restore of b{b:04} failed: {}", d.desc(), br["restore"]["err"]),
                    replay.clone(),
                );
                return;
            }
            run.count("versions_not_opening_after_head_damage", 1);
            continue;
        }
        run.count("versions_restored_after_damage", 1);
        let deps = damage::dependencies(raw_pre, *b);
        let band_uses_damaged = deps.values().any(|ds| ds.contains(&d.relpath));
        if decodable_hunk && band_uses_damaged {
            // a still-decodable hunk may say anything: the format has no checksum on hunks
            run.count("versions_with_altered_but_decodable_hunk", 1);
            continue;
        }
        let actual = match tree::snapshot(&out.join(format!("b{b:04}"))) {
            Ok(a) => a,
            Err(_) => Snapshot::new(),
        };
        let expected = &s.expected[b];
        let error_texts: Vec<&str> = br["restore"]["error_text"].as_array().map(|a| a.iter().filter_map(|v| v.as_str()).collect()).unwrap_or_default();
        let damaged_block = path_class(&d.relpath) == "block";
        let mut silent_loss: Option<String> = None;
        for (p, node) in expected {
            // directories that exist only because restoring an entry created the directories
            // above it are not entries of the version (and carry the time of the restore)
            if !deps.contains_key(p) {
                continue;
            }
            // an entry with a directory above it that is not listed (an orphan of a stitched
            // version) is restorable only if restoring some sibling directory happens to create
            // that directory: nothing is promised for it
            {
                let mut a: &str = p;
                let mut orphan = false;
                while a != "/" {
                    a = tree::parent_of(a);
                    if !deps.contains_key(a) {
                        orphan = true;
                    }
                }
                if orphan {
                    continue;
                }
            }
            let touched = deps.get(p).map(|ds| ds.contains(&d.relpath)).unwrap_or(false);
            let same = {
                let mut e1 = Snapshot::new();
                e1.insert(p.clone(), node.clone());
                let mut a1 = Snapshot::new();
                if let Some(a) = actual.get(p) {
                    a1.insert(p.clone(), a.clone());
                }
                tree::diff_snapshots(&e1, &a1, &CmpOpts::default()).is_empty()
            };
            if !touched {
                run.count("untouched_entries_compared", 1);
                if !same {
                    run.violation(
                        format!("untouched-entry-not-restored-exactly@{dc}"),
                        format!("{}: b{b:04} {p}: expected {} got {:?}", d.desc(), tree::describe(node), actual.get(p).map(tree::describe)),
                        replay.clone(),
                    );
                    return;
                }
            } else if unreadable
                && !vanished_tail_hunk
                && (matches!(path_class(&d.relpath), "hunk" | "block") || (path_class(&d.relpath) == "BANDHEAD" && d.action != Action::Delete))
            {
                // (a DELETED BANDHEAD makes its band look deleted, and stitching skips deleted
                // bands by design; a head that is still there but does not parse belongs to a
                // band that exists and cannot be read: entries taken from it are lost, and that
                // must be said)
                run.count("touched_entries_judged", 1);
                // for a damaged block the error names the file; for a damaged hunk the entries are
                // gone and only a band-level error is possible
                let reported = if damaged_block {
                    error_texts.iter().any(|t| t.contains(&format!("for {p}:")) || t.contains(&format!("{p}\"")))
                } else {
                    // an error that the undamaged archive does not produce
                    let base = base_errors.get(b).cloned().unwrap_or_default();
                    error_texts.iter().any(|t| !base.contains(&mask_out(t, out)))
                };
                if !same && !reported {
                    silent_loss = Some(format!("b{b:04} {p}: expected {} got {:?}", tree::describe(node), actual.get(p).map(tree::describe)));
                }
            }
        }
        if let Some(what) = silent_loss {
            run.violation(
                format!("damaged-entry-silently-dropped-or-altered@{dc}"),
                format!("{}: restore of b{b:04} returned Ok and reported no error for this entry, but {what}", d.desc()),
                replay.clone(),
            );
            return;
        }
        // the same rules for the version restricted to a subtree (listing; restore of the first)
        let base = base_errors.get(b).cloned().unwrap_or_default();
        let lost_must_be_said = unreadable
            && !vanished_tail_hunk
            && (matches!(path_class(&d.relpath), "hunk") || (path_class(&d.relpath) == "BANDHEAD" && d.action != Action::Delete));
        for sub in br["subtrees"].as_array().cloned().unwrap_or_default() {
            let top = sub["subtree"].as_str().unwrap_or("/").to_string();
            let Some(listed) = sub["listed"].as_array() else {
                run.violation(format!("subtree-of-open-version-does-not-list@{dc}"), format!("{}: b{b:04} subtree {top}: {}", d.desc(), sub["list"]), replay.clone());
                return;
            };
            let listed: std::collections::BTreeSet<&str> = listed.iter().filter_map(|v| v.as_str()).collect();
            let new_error = |which: &str| {
                sub[which]["error_text"].as_array().map(|a| a.iter().filter_map(|v| v.as_str()).any(|t| !base.contains(&mask_out(t, out)))).unwrap_or(false)
            };
            let restored = if sub.get("restore").is_some() { Some(tree::snapshot(&out.join(format!("sub-b{b:04}"))).unwrap_or_default()) } else { None };
            run.count("subtree_listings_judged", 1);
            for p in deps.keys().filter(|p| tree::is_under(p, &top)) {
                let touched = deps[p].contains(&d.relpath);
                if !listed.contains(p.as_str()) {
                    if !touched {
                        run.violation(
                            format!("untouched-entry-missing-from-subtree-listing@{dc}"),
                            format!("{}: b{b:04} listed under {top} without {p}", d.desc()),
                            replay.clone(),
                        );
                        return;
                    }
                    if lost_must_be_said {
                        run.count("touched_entries_judged_in_subtree_listings", 1);
                        if !new_error("list") {
                            run.violation(
                                format!("damaged-entry-silently-dropped-from-subtree-listing@{dc}"),
                                format!("{}: listing b{b:04} under {top} leaves out {p} and reports no error ({})", d.desc(), sub["list"]),
                                replay.clone(),
                            );
                            return;
                        }
                    }
                }
                if let Some(snap) = &restored {
                    let orphan = {
                        let mut a: &str = p;
                        let mut o = false;
                        while a != "/" {
                            a = tree::parent_of(a);
                            o |= !deps.contains_key(a);
                        }
                        o
                    };
                    if touched && !orphan && !snap.contains_key(p) && (lost_must_be_said || (unreadable && path_class(&d.relpath) == "block")) {
                        run.count("touched_entries_judged_in_subtree_restores", 1);
                        if !new_error("restore") {
                            run.violation(
                                format!("damaged-entry-silently-dropped-from-subtree-restore@{dc}"),
                                format!("{}: restoring b{b:04} under {top} leaves out {p} and reports no error ({})", d.desc(), sub["restore"]),
                                replay.clone(),
                            );
                            return;
                        }
                    }
                }
            }
        }
    }
    // 3. a new backup after a deleted or emptied file
    if matches!(d.action, Action::Delete | Action::Truncate0) {
        run.count("followup_backups_judged", 1);
        let ok = rep["backup"]["ok"].as_bool().unwrap_or(false);
        let complete = rep["new_band"]["complete"].as_bool().unwrap_or(false);
        if !ok || !complete {
            run.violation(
                format!("backup-after-damage-failed@{dc}"),
                format!("{}: backup {} new band {}", d.desc(), rep["backup"], rep["new_band"]),
                replay.clone(),
            );
            return;
        }
        let actual = tree::snapshot(&out.join("new")).unwrap_or_default();
        let diff = tree::diff_snapshots(&s.world.snap, &actual, &CmpOpts::default());
        let rerr = rep["new_band"]["restore"]["errors"].as_u64().unwrap_or(0);
        if !diff.is_empty() || rerr > 0 || !rep["new_band"]["restore"]["ok"].as_bool().unwrap_or(false) {
            run.violation(
                format!("backup-after-damage-does-not-restore-exactly@{dc}"),
                format!("{}: {} ; restore {}", d.desc(), diff.first().map(|d| d.1.clone()).unwrap_or_default(), rep["new_band"]["restore"]),
                replay.clone(),
            );
        }
    }
}

fn one_damage(run: &Run, s: &Subject, raw_pre: &fmt06::Raw, base_errors: &BTreeMap<u32, Vec<String>>, exe: &Path, wrapper: &[&str], budget: usize, case: u64, di: usize, d: &Damage, counter: &str) {
    // "held": the damage happens while a program holds an open Archive handle that it has
    // already used; everything afterwards goes through that handle (see the child)
    let held = counter == "damaged_archives_run_with_a_held_handle";
    let arch = if held {
        let p = s.world.sc.fresh("dmg");
        fmt06::copy_dir(&s.world.arch, &p);
        p
    } else {
        damage::damaged_copy(s, d, run.seed)
    };
    let out = s.world.sc.fresh("out");
    std::fs::create_dir_all(&out).unwrap();
    let extra: Vec<String> = if held { vec!["hold".into(), d.relpath.clone(), d.action.name(), run.seed.to_string()] } else { vec![] };
    let cr = run_child_with(exe, wrapper, &arch, &s.world.src, &out, s.opts, budget * if held { 2 } else { 1 }, Duration::from_secs(if wrapper.is_empty() { 120 } else { 600 }), &extra);
    run.eval();
    run.count(counter, 1);
    run.observe("damage_classes", d.class());
    run.nontrivial(fnv(format!("{case}|{}|{held}", d.desc()).as_bytes()));
    let replay = json!({"case": case, "damage_index": di, "damage": d.desc(), "held_handle": held, "history": s.desc});
    judge(run, s, raw_pre, base_errors, d, &arch, &out, &cr, &replay);
    crate::scratch::rm(&arch);
    crate::scratch::rm(&out);
}

/// Case number of the scale subject (10 040 files, one entry per hunk).
const SCALE_CASE: u64 = 1_000_000;

pub fn run(tier: Tier, replay: Option<Value>) -> i32 {
    let run = Run::new("C10", "fault_enumeration", tier, replay.clone());
    let exe = std::env::current_exe().expect("current exe");
    let memcheck = Command::new("valgrind").arg("--version").stdout(Stdio::null()).stderr(Stdio::null()).status().map(|s| s.success()).unwrap_or(false);
    if !memcheck {
        run.count("memcheck_unavailable", 1);
    }
    let n = tier.pick(4u64, 120);
    // the scale subject first: the soft time budget must never be what skips it
    for case in [SCALE_CASE].into_iter().chain(0..n) {
        if let Some(r) = &replay {
            if r.get("case").and_then(|c| c.as_u64()) != Some(case) {
                continue;
            }
        }
        let s = if case == SCALE_CASE { damage::build_scale_subject(run.seed, "c10big") } else { damage::build_subject(run.seed, case, "c10") };
        let raw_pre = fmt06::read_archive(&s.world.arch, false);
        // fault-free run of the same child: must be clean, and gives the operation budget
        let base_arch = s.world.sc.fresh("base");
        fmt06::copy_dir(&s.world.arch, &base_arch);
        let base_out = s.world.sc.fresh("baseout");
        std::fs::create_dir_all(&base_out).unwrap();
        let base = run_child(&exe, &[], &base_arch, &s.world.src, &base_out, s.opts, 10_000_000, Duration::from_secs(120));
        let Some(base_rep) = &base.report else {
            run.inconclusive(format!("fault-free child did not finish: {} {:?} {}", base.status, base.panic, base.stderr_tail));
            continue;
        };
        let base_ops = base_rep["storage_ops"].as_u64().unwrap_or(1000) as usize;
        // 1000x the fault-free count, plus room for walks down the band numbers (a damaged
        // tail makes conserve probe every lower band id: linear in the id, not a loop)
        let budget = base_ops * 1000 + 30 * (raw_pre.bands.keys().max().copied().unwrap_or(0) as usize + 2);
        // what restoring each band reports before any damage (interrupted versions may report
        // entries that have no directory above them), with the output directory masked
        let base_errors: BTreeMap<u32, Vec<String>> = s
            .bands
            .iter()
            .map(|b| {
                let texts = base_rep["bands"][b.to_string()]["restore"]["error_text"]
                    .as_array()
                    .map(|a| a.iter().filter_map(|v| v.as_str()).map(|t| mask_out(t, &base_out)).collect())
                    .unwrap_or_default();
                (*b, texts)
            })
            .collect();
        run.count("archives", 1);
        let flips = tier.pick(2, 6);
        let damages = if case == SCALE_CASE { let mut d = damage::scale_damages(); d.extend(damage::scale_block_damages(&s.world.arch)); d } else { damage::all_damages(&s.world.arch, true, flips) };

        run.sample(|| json!({"case": case, "history": s.desc, "bands": s.bands, "complete": s.complete, "fault_free_storage_ops": base_ops, "damages": damages.len(),
            "first_damages": damages.iter().take(6).map(|d| d.desc()).collect::<Vec<_>>()}));
        let only = replay.as_ref().and_then(|r| r.get("damage_index")).and_then(|d| d.as_u64()).map(|d| d as usize);
        let next = std::sync::atomic::AtomicUsize::new(0);
        std::thread::scope(|sc| {
            for _ in 0..super::threads() {
                sc.spawn(|| loop {
                    let i = next.fetch_add(1, std::sync::atomic::Ordering::SeqCst);
                    if i >= damages.len() {
                        break;
                    }
                    if only.is_some() && only != Some(i) {
                        continue;
                    }
                    if run.out_of_time() {
                        run.count("damages_skipped_by_time_budget", 1);
                        continue;
                    }
                    let replay_held = run.replay.as_ref().and_then(|r| r.get("held_handle")).and_then(|h| h.as_bool()).unwrap_or(false);
                    if !replay_held {
                        if let Err(m) = crate::report::guard(|| one_damage(&run, &s, &raw_pre, &base_errors, &exe, &[], budget, case, i, &damages[i], "damaged_archives_run")) {
                            run.inconclusive(format!("harness error: {m}"));
                        } else if case == SCALE_CASE {
                            run.count("damages_on_a_band_with_two_hunk_subdirectories", 1);
                        }
                    }
                    // every fourth damage also with a held handle (not for the scale subject)
                    if case != SCALE_CASE && (replay_held || (run.replay.is_none() && (i % 4 == 1 || (crate::props::c03::path_class(&damages[i].relpath) == "block" && matches!(damages[i].action, Action::Delete | Action::Truncate0))))) {
                        if let Err(m) = crate::report::guard(|| one_damage(&run, &s, &raw_pre, &base_errors, &exe, &[], budget, case, i, &damages[i], "damaged_archives_run_with_a_held_handle")) {
                            run.inconclusive(format!("harness error: {m}"));
                        }
                    }
                });
            }
        });
        // auxiliary sanitizer pass: hostile bytes reach the Snappy / JSON / hex decoders of
        // dependencies; replay garbage, bit-flip and half-truncated cases under valgrind memcheck
        if memcheck && case < 2 && replay.is_none() {
            let sel: Vec<(usize, &Damage)> = damages
                .iter()
                .enumerate()
                .filter(|(_, d)| matches!(d.action, Action::Garbage | Action::BitFlip(_) | Action::JsonFlip(_) | Action::TruncateHalf))
                .filter(|(i, _)| tier == Tier::Thorough || i % 9 == 0)
                .take(tier.pick(8, 100))
                .collect();
            let next = std::sync::atomic::AtomicUsize::new(0);
            let wrapper = ["valgrind", "--tool=memcheck", "--error-exitcode=99", "--quiet", "--leak-check=no"];
            std::thread::scope(|sc| {
                for _ in 0..super::threads() {
                    sc.spawn(|| loop {
                        let i = next.fetch_add(1, std::sync::atomic::Ordering::SeqCst);
                        if i >= sel.len() {
                            break;
                        }
                        let (di, d) = sel[i];
                        if let Err(m) = crate::report::guard(|| one_damage(&run, &s, &raw_pre, &base_errors, &exe, &wrapper, budget * 4, case, di, d, "damaged_archives_run_under_memcheck")) {
                            run.inconclusive(format!("harness error: {m}"));
                        }
                    });
                }
            });
        }
    }
    let needs: &[(&str, u64)] = if replay.is_some() { &[] } else {
        &[("damaged_archives_run", 200), ("children_completed", 150), ("untouched_entries_compared", 1000), ("touched_entries_judged", 50), ("followup_backups_judged", 50), ("damages_on_a_band_with_two_hunk_subdirectories", 5), ("damaged_archives_run_with_a_held_handle", 50), ("subtree_listings_judged", 500), ("touched_entries_judged_in_subtree_listings", 20)]
    };
    run.finish(
        "archives with 2-4 bands (complete, interrupted in the middle, interrupted newest) sharing blocks; EVERY file except CONSERVE x {delete (not BANDTAIL), truncate 0, truncate half, seeded garbage} + seeded bit flips in every file + seeded single-bit flips in the uncompressed JSON of every hunk, head and tail that keep it decodable (the damage no checksum catches); + for every hunk, head and tail one field of its JSON set to a value at or beyond the edge of its type (times, nanoseconds, modes, address start / len and their overflowing sum, hunk counts); plus one archive of 10 040 files with one entry per hunk (hunks in i/00000 and i/00001) with hunks 5, 9999, 10000, 10030 deleted / emptied, hunk 7 replaced by garbage, hunk 10001 halved, the last hunk deleted, and blocks that share their d/xyz subdirectory with others emptied or deleted; every fourth damage, and every deletion or emptying of a block, is also applied while the child process holds an Archive handle it has already used (for a listing, a quick validation and a restore) and keeps using for everything that follows, as a long-running program built on the library would; each damaged archive is given to a child process that lists versions (band info, sizes), lists and restores every band (whole; and listed under up to four of its top-level directories, the first of them also restored on its own), validates fully and quickly, backs up the source again and restores that; the parent requires: normal termination (panic, abort, signal = violation; more than 1000x the fault-free number of storage operations = violation; 120 s wall clock = inconclusive); every version other than one whose own BANDHEAD was damaged still opens; each entry whose hunk, that hunk's BANDHEAD and blocks are untouched is restored exactly; entries whose hunk or block is now missing or undecodable, or whose band's head is still there but no longer parses, are restored exactly or the restore reports an error (the vanished last hunk of an incomplete band excepted: indistinguishable from an earlier interruption); the same two rules for the subtree listings and the subtree restore (an entry missing under the subtree must depend on the damaged file; if that file is gone or undecodable an error the undamaged archive does not produce must be reported); after delete / truncate-to-0 the new backup completes and restores the source exactly. Auxiliary sanitizer pass: garbage / bit-flip / half-truncated cases of two archives (8 in quick, 100 per archive in thorough) are replayed with the child under valgrind memcheck (--error-exitcode=99); a report is judged like a crash.",
        &["hunks carry no checksum: a hunk that still decodes after damage imposes no content requirement", "the child and the parent are the same binary; the interceptor's operation count is the progress measure"],
        Some(true),
        needs,
    )
}
