//! C03 — a backup killed at any point leaves a consistent, usable archive.

use std::collections::BTreeMap;

use serde_json::{Value, json};

use crate::cs;
use crate::fmt06::{self, Raw};
use crate::icept::{Mode, V};
use crate::oracle::{restore_and_compare, stitch_model, stitched_expected};
use crate::report::{Run, Tier, panic_site};
use crate::rng::fnv;
use crate::scenario::{self, FaultRun, Scenario};
use crate::tree::{self, CmpOpts, Snapshot};

pub fn path_class(p: &str) -> &'static str {
    if p.ends_with("BANDHEAD") {
        "BANDHEAD"
    } else if p.ends_with("BANDTAIL") {
        "BANDTAIL"
    } else if p == "GC_LOCK" {
        "GC_LOCK"
    } else if p == "CONSERVE" {
        "CONSERVE"
    } else if p.starts_with("d/") && p.len() > 100 {
        "block"
    } else if p.starts_with("d") {
        "blockdir"
    } else if p.contains("/i/") && p.rsplit('/').next().map(|l| l.len() == 9).unwrap_or(false) {
        "hunk"
    } else if p.contains("/i") {
        "indexdir"
    } else if p.starts_with('b') {
        "banddir"
    } else if p.is_empty() {
        "root"
    } else {
        "other"
    }
}

pub fn at_desc(fr: &FaultRun) -> String {
    match &fr.at {
        Some(e) => format!(
            "{}{}:{}",
            if fr.torn && e.verb == V::Write { "torn-" } else { "before-" },
            e.verb.name(),
            path_class(&e.path)
        ),
        None => "not-reached".into(),
    }
}

/// Paths of a stitched listing that have no directory above them in the same listing.
pub fn orphans(listing: &[(u32, fmt06::Entry)]) -> std::collections::BTreeSet<String> {
    let mut kinds: BTreeMap<&str, &str> = BTreeMap::new();
    for (_, e) in listing {
        kinds.insert(e.apath.as_str(), e.kind.as_str());
    }
    let mut orph = std::collections::BTreeSet::new();
    // listing is in apath order: parents precede children
    for (_, e) in listing {
        if e.apath == "/" {
            continue;
        }
        let parent = tree::parent_of(&e.apath);
        let parent_ok = kinds.get(parent).map(|k| *k == "Dir").unwrap_or(false) && !orph.contains(parent);
        if !parent_ok {
            orph.insert(e.apath.clone());
        }
    }
    orph
}

/// Compare conserve's listing of `band` with the stitch model over the raw archive.
pub fn listing_matches_model(
    arch: &std::path::Path,
    raw: &Raw,
    band: u32,
) -> Result<Vec<(u32, fmt06::Entry)>, String> {
    let model = stitch_model(raw, band);
    let l = cs::list(cs::local(arch), Some(band), "/", &[]);
    if let Some(p) = &l.panic {
        return Err(format!("listing panicked: {p}"));
    }
    let Some(listed) = l.value() else {
        return Err(format!("listing failed: {}", l.describe()));
    };
    let a: Vec<(&str, &str, Option<&str>, Vec<(String, u64, u64)>)> = listed
        .iter()
        .map(|e| (e.apath.as_str(), e.kind.as_str(), e.target.as_deref(), e.addrs.clone()))
        .collect();
    let b: Vec<(&str, &str, Option<&str>, Vec<(String, u64, u64)>)> = model
        .iter()
        .map(|(_, e)| {
            (
                e.apath.as_str(),
                e.kind.as_str(),
                e.target.as_deref(),
                e.addrs.iter().map(|a| (a.hash.clone(), a.start, a.len)).collect(),
            )
        })
        .collect();
    if a != b {
        let pa: Vec<&str> = a.iter().map(|x| x.0).collect();
        let pb: Vec<&str> = b.iter().map(|x| x.0).collect();
        return Err(format!("listed {pa:?} but the stitching rule gives {pb:?} (or entries differ in kind/target/addrs)"));
    }
    Ok(model)
}

/// The oracle at one crash state. Returns false when a violation was recorded.
pub fn check_crash_state(run: &Run, sc: &Scenario, fr: &FaultRun, replay: &Value) -> bool {
    let at = at_desc(fr);
    let viol = |phase: &str, class: &str, detail: String| {
        run.violation(
            format!("{phase}:{class}@{at}"),
            format!("{} crash {} (k={}): {detail}", sc.desc, at, fr.k),
            replay.clone(),
        );
    };
    // a panic before the kill is conserve's; after it the process is dead
    if let Some(p) = &fr.outcome.panic {
        if !fr.frozen && fr.k < sc.trace.len() {
            viol("backup-panic-before-kill", &panic_site(p), p.clone());
            return false;
        }
    }
    let raw = fmt06::read_archive(&fr.arch, true);
    let new_id = sc.new_band_id();
    // 1. archive opens
    let lb = cs::list_bands(cs::local(&fr.arch));
    let Some(band_ids) = lb.value().cloned() else {
        viol("open", "archive-does-not-open", lb.describe());
        return false;
    };
    // 2. previously complete versions
    for b in &sc.prior_complete {
        if let Err(m) = restore_and_compare(&fr.arch, Some(*b), &sc.prior_sources[b], sc.scratch(), &CmpOpts::default()) {
            viol("prior-by-id", &m.class, format!("b{b:04}: {}", m.detail));
            return false;
        }
        run.count("prior_versions_restored", 1);
    }
    let mut sources: BTreeMap<u32, Snapshot> = sc.prior_sources.clone();
    sources.insert(new_id, sc.snap.clone());
    if let Some(latest) = raw.complete_bands().into_iter().max() {
        if let Err(m) = restore_and_compare(&fr.arch, None, &sources[&latest], sc.scratch(), &CmpOpts::default()) {
            viol("latest-closed", &m.class, format!("expected b{latest:04}: {}", m.detail));
            return false;
        }
        run.count("latest_closed_restored", 1);
    }
    // 3. no index entry anywhere refers to a missing or short block
    for id in raw.bands.keys() {
        let d = raw.dangling_refs(*id);
        if !d.is_empty() {
            viol("dangling-ref", "entry-refers-to-missing-or-short-block", format!("b{id:04}: {:?}", &d[..d.len().min(3)]));
            return false;
        }
    }
    run.count("reference_scans", 1);
    // observations about the state
    if let Some(nb) = raw.bands.get(&new_id) {
        if !nb.hunks.is_empty() && nb.tail_raw.is_none() {
            run.count("states_interrupted_band_has_hunks", 1);
        }
        let referenced = raw.referenced_blocks(raw.bands.keys().copied());
        if raw.blocks.keys().any(|b| !referenced.contains(b)) {
            run.count("states_with_unreferenced_block_on_disk", 1);
        }
        if raw.blocks.values().any(|b| b.comp_len == 0) {
            run.count("states_with_empty_block_file", 1);
        }
    }
    // 4. the interrupted version
    if let Some(nb) = raw.bands.get(&new_id) {
        if nb.head.is_some() {
            run.count("states_with_new_header", 1);
            if !band_ids.contains(&new_id) {
                viol("new-band", "not-listed", format!("band ids {band_ids:?}"));
                return false;
            }
            if nb.tail_raw.is_none() {
                let c = cs::band_closed(cs::local(&fr.arch), new_id);
                if c.value() != Some(&false) {
                    viol("new-band", "reported-closed-without-tail", c.describe());
                    return false;
                }
            }
            let model = match listing_matches_model(&fr.arch, &raw, new_id) {
                Ok(m) => m,
                Err(e) => {
                    viol("listing-vs-stitch-rule", "differs", e);
                    return false;
                }
            };
            run.count("stitched_listings_compared", 1);
            // naming it as "the latest version, complete or not" selects the same version
            if raw.bands.keys().max() == Some(&new_id) {
                let l = cs::list(cs::local(&fr.arch), Some(cs::LATEST), "/", &[]);
                let want: Vec<&str> = model.iter().map(|(_, e)| e.apath.as_str()).collect();
                let got: Option<Vec<&str>> = l.value().map(|v| v.iter().map(|e| e.apath.as_str()).collect());
                if got.as_ref() != Some(&want) {
                    viol("latest-selection", "differs-from-the-newest-version", format!("selected as 'latest' the listing is {:?}, by id {want:?}", got.map(|g| g.len())));
                    return false;
                }
                run.count("latest_selections_compared", 1);
            }
            // the same holds for the part of the interrupted version below one directory: the
            // rule decides per path, so a subtree listing is the filtered full listing
            // (any path of this or an earlier version may be asked for, also one since deleted)
            let mut dirs: std::collections::BTreeSet<&str> =
                model.iter().map(|(_, e)| e.apath.as_str()).filter(|p| *p != "/").collect();
            for s in sources.values() {
                dirs.extend(s.keys().map(|p| p.as_str()).filter(|p| *p != "/"));
            }
            let dirs: Vec<&str> = dirs.into_iter().collect();
            if !dirs.is_empty() {
                let s = dirs[(fr.k * 7 + fr.torn as usize) % dirs.len()];
                let l = cs::list(cs::local(&fr.arch), Some(new_id), s, &[]);
                let want: Vec<&str> = model.iter().map(|(_, e)| e.apath.as_str()).filter(|p| tree::is_under(p, s)).collect();
                match l.value() {
                    Some(got) if l.panic.is_none() => {
                        let got: Vec<&str> = got.iter().map(|e| e.apath.as_str()).collect();
                        if got != want {
                            viol("subtree-listing-vs-stitch-rule", "differs", format!("subtree {s:?}: listed {got:?} but the stitching rule gives {want:?}"));
                            return false;
                        }
                        run.count("stitched_subtree_listings_compared", 1);
                    }
                    _ => {
                        viol("subtree-listing-vs-stitch-rule", "failed", format!("subtree {s:?}: {}", l.describe()));
                        return false;
                    }
                }
            }
            if model.iter().any(|(b, _)| *b != new_id) && model.iter().any(|(b, _)| *b == new_id) {
                run.count("stitched_listings_spanning_bands", 1);
            }
            // restore of it: new content up to the last recorded path, previous version's after
            let orph = orphans(&model);
            let mut expected = stitched_expected(&model, &sources);
            if expected.len() != model.len() {
                run.inconclusive(format!("{}: stitched entry unknown to the snapshot model", sc.desc));
                return true;
            }
            let dest = sc.scratch().fresh("stitched");
            let out = cs::restore(cs::local(&fr.arch), Some(new_id), &dest, None, &[], false);
            if let Some(p) = &out.panic {
                viol("stitched-restore", &format!("panic:{}", panic_site(p)), p.clone());
                return false;
            }
            if !out.ok() {
                viol("stitched-restore", "err", out.describe());
                return false;
            }
            // stitching through a band whose BANDHEAD is an empty file (a backup killed while
            // writing it) reports that band as unreadable: information, not a wrong result
            let torn_head = raw.bands.values().any(|b| b.head_raw.is_some() && b.head.is_none());
            let unexpected: Vec<&String> = out.errors.iter().filter(|e| !(torn_head && e.contains("BANDHEAD"))).collect();
            if !unexpected.is_empty() && orph.is_empty() {
                viol("stitched-restore", "reported-errors", out.describe());
                return false;
            }
            let mut actual = tree::snapshot(&dest).expect("snapshot");
            crate::scratch::rm(&dest);
            if !orph.is_empty() {
                run.count("stitched_states_with_orphans", 1);
                let under_orphan = |p: &String| orph.iter().any(|o| tree::is_under(p, o));
                expected.retain(|p, _| !under_orphan(p));
                actual.retain(|p, _| !under_orphan(p));
                // restoring an orphan directory creates the directories above it
                let above_orphan = |p: &String| orph.iter().any(|o| o != p && tree::is_under(o, p));
                let listed: std::collections::BTreeSet<&str> = model.iter().map(|(_, e)| e.apath.as_str()).collect();
                actual.retain(|p, _| listed.contains(p.as_str()) || !above_orphan(p));
            }
            if model.is_empty() {
                // nothing listed: the destination is just the empty directory
                expected.clear();
                actual.retain(|p, _| p != "/");
            }
            let d = tree::diff_snapshots(&expected, &actual, &CmpOpts::default());
            if !d.is_empty() {
                let mut classes: Vec<&str> = d.iter().map(|(c, _)| c.as_str()).collect();
                classes.sort();
                classes.dedup();
                viol(
                    "stitched-restore",
                    &format!("differs:{}", classes.join("+")),
                    d.iter().take(4).map(|(_, m)| m.as_str()).collect::<Vec<_>>().join("; "),
                );
                return false;
            }
            run.count("stitched_restores_compared", 1);
        }
    }
    // 5. a later backup of the same source completes and restores exactly
    let f = cs::backup(cs::local(&fr.arch), sc.src(), sc.opts, &[], None);
    if let Some(p) = &f.panic {
        viol("followup-backup", &format!("panic:{}", panic_site(p)), p.clone());
        return false;
    }
    let ok = f.ok() && f.value().map(|s| s.errors == 0).unwrap_or(false);
    if !ok {
        viol("followup-backup", "failed", f.describe());
        return false;
    }
    let raw2 = fmt06::read_archive(&fr.arch, false);
    let fid = *raw2.bands.keys().max().unwrap();
    if !raw2.bands[&fid].complete() || raw.bands.contains_key(&fid) && raw.bands[&fid].head_raw.is_some() {
        viol("followup-backup", "no-new-complete-band", format!("newest band b{fid:04}"));
        return false;
    }
    if let Err(m) = restore_and_compare(&fr.arch, Some(fid), &sc.snap, sc.scratch(), &CmpOpts::default()) {
        viol("followup-restore", &m.class, m.detail);
        return false;
    }
    run.count("followup_backups_restored", 1);
    true
}

fn one_scenario(run: &Run, case: u64) {
    let sc = scenario::build(run.seed, case, "c03");
    let n = sc.trace.len();
    run.count("scenarios", 1);
    run.observe("scenario_kinds", format!("{:?}", sc.prior));
    run.sample(|| {
        json!({"case": case, "scenario": sc.desc, "trace_len": n,
            "trace": sc.trace.iter().map(|e| e.brief()).collect::<Vec<_>>()})
    });
    let only = run.replay.as_ref().and_then(|r| r.get("k")).and_then(|k| k.as_u64()).map(|k| k as usize);
    let only_torn = run.replay.as_ref().and_then(|r| r.get("torn")).and_then(|k| k.as_bool());
    let writes: std::collections::BTreeSet<usize> = sc.write_points().into_iter().collect();
    for k in 0..=n {
        if only.is_some() && only != Some(k) {
            continue;
        }
        for torn in [false, true] {
            if torn && !writes.contains(&k) {
                continue;
            }
            if only_torn.is_some() && only_torn != Some(torn) {
                continue;
            }
            if run.out_of_time() {
                run.count("crash_points_skipped_by_time_budget", 1);
                continue;
            }
            let fr = sc.run_with(Mode::CrashAt { k, torn }, 0);
            run.eval();
            run.count(if torn { "torn_points" } else { "crash_points" }, 1);
            if let Some(e) = &fr.at {
                run.count(&format!("crash_at_{}", e.verb.name()), 1);
                run.nontrivial(fnv(format!("{}|{}|{}|{}|{}", sc.desc, torn, e.verb.name(), e.path, k).as_bytes()));
            }
            let replay = json!({"case": case, "k": k, "torn": torn, "scenario": sc.desc,
                "at": fr.at.as_ref().map(|e| e.brief())});
            let _ = check_crash_state(run, &sc, &fr, &replay);
            crate::scratch::rm(&fr.arch);
        }
    }
}

pub fn run(tier: Tier, replay: Option<Value>) -> i32 {
    let run = Run::new("C03", "fault_enumeration", tier, replay);
    let n = tier.pick(12, 600);
    run.par_cases(n, super::threads(), |case| one_scenario(&run, case));
    run.finish(
        "scenarios = prior history in {empty archive, one complete version, complete + interrupted, two complete} x generated new source (small files that share combined blocks, a multi-block file, changed/removed/renamed entries) x small (hunk, block, cap); for each, the storage trace of the backup is recorded and EVERY operation index k in 0..=n is replayed on a fresh copy with stop-the-world before k, and every write additionally with the torn variant (file exists, empty). At each state: archive opens; every previously complete version restores exactly by id and via LatestClosed; independent reference scan finds no entry pointing at a missing/short block; if the new header parses, the band is listed, not closed (unless its tail exists), its listing equals the executable stitching rule over the raw files, and its restore equals new content up to the last recorded path and the previous version after (paths without a directory above them in the listing excepted); a follow-up backup completes and restores exactly. Distinct = (scenario, k, torn).",
        &["stop-the-world = every storage operation of the actor fails from k on (no effect can reach the archive)", "torn write = zero-length file, the state the blockdir code documents"],
        Some(true),
        &[("crash_points", 50), ("torn_points", 10), ("states_interrupted_band_has_hunks", 5), ("stitched_restores_compared", 5), ("followup_backups_restored", 20), ("states_with_unreferenced_block_on_disk", 1)],
    )
}
