//! C04 — storage errors never make the archive record wrong content or a false success.

use std::collections::BTreeMap;

use serde_json::{Value, json};

use crate::fmt06::{self, FsItem};
use crate::icept::{KINDS, Mode, V, kind_name};
use crate::oracle::restore_and_compare;
use crate::props::c03::path_class;
use crate::report::{Run, Tier, panic_site};
use crate::rng::fnv;
use crate::scenario::{self, FaultRun, Scenario};
use crate::tree::{CmpOpts, Kind, Snapshot};

fn fault_desc(fr: &FaultRun) -> String {
    match (&fr.at, fr.kind) {
        (Some(e), Some(k)) => format!("{}:{}:{}", e.verb.name(), path_class(&e.path), kind_name(k)),
        (Some(e), None) => format!("{}:{}:random", e.verb.name(), path_class(&e.path)),
        _ => "no-fault-reached".into(),
    }
}

/// Every file entry of every band resolves to the bytes its path had in that band's source.
pub fn check_recorded_content(
    raw: &fmt06::Raw,
    sources: &BTreeMap<u32, Snapshot>,
) -> Result<u64, (String, String)> {
    let mut n = 0;
    for (id, band) in &raw.bands {
        let Some(src) = sources.get(id) else { continue };
        for e in band.own_entries() {
            if e.kind != "File" {
                continue;
            }
            n += 1;
            let want = match src.get(&e.apath) {
                Some(node) if node.kind == Kind::File => &node.content,
                _ => {
                    return Err((
                        "entry-for-path-that-is-not-a-file-in-source".into(),
                        format!("b{id:04} {}", e.apath),
                    ));
                }
            };
            match raw.resolve(e) {
                Err(why) => return Err(("dangling-or-short-reference".into(), format!("b{id:04} {}: {why}", e.apath))),
                Ok(bytes) => {
                    if &bytes != want {
                        // whose bytes are they?
                        let other = src
                            .iter()
                            .find(|(p, nd)| nd.kind == Kind::File && nd.content == bytes && p.as_str() != e.apath)
                            .map(|(p, _)| p.clone());
                        return Err((
                            "entry-resolves-to-wrong-bytes".into(),
                            format!(
                                "b{id:04} {} resolves to {} bytes (fnv {:x}), source had {} bytes (fnv {:x}){}",
                                e.apath,
                                bytes.len(),
                                fnv(&bytes),
                                want.len(),
                                fnv(want),
                                other.map(|o| format!("; those are the bytes of {o}")).unwrap_or_default()
                            ),
                        ));
                    }
                }
            }
        }
    }
    Ok(n)
}

fn check_fault_run(run: &Run, sc: &Scenario, fr: &FaultRun, before: &BTreeMap<String, FsItem>, replay: &Value) -> bool {
    let fd = fault_desc(fr);
    let viol = |phase: &str, class: &str, detail: String| {
        run.violation(
            format!("{phase}:{class}@{fd}"),
            format!("{} fault {fd} (k={}): {detail}", sc.desc, fr.k),
            replay.clone(),
        );
    };
    // 1. no crash
    if fr.over_budget {
        viol("backup", "unbounded-storage-loop", "operation budget exceeded".into());
        return false;
    }
    if let Some(p) = &fr.outcome.panic {
        viol("backup-panic", &panic_site(p), p.clone());
        return false;
    }
    // 2. earlier data untouched
    let after = fmt06::dir_bytes(&fr.arch);
    for (p, item) in before {
        if after.get(p) != Some(item) {
            viol("existing-file", "altered-or-removed", p.clone());
            return false;
        }
    }
    for b in &sc.prior_complete {
        if let Err(m) = restore_and_compare(&fr.arch, Some(*b), &sc.prior_sources[b], sc.scratch(), &CmpOpts::default()) {
            viol("prior-by-id", &m.class, format!("b{b:04}: {}", m.detail));
            return false;
        }
    }
    // 3. every recorded file entry has exactly the source's bytes
    let raw = fmt06::read_archive(&fr.arch, true);
    let new_id = sc.new_band_id();
    let mut sources = sc.prior_sources.clone();
    sources.insert(new_id, sc.snap.clone());
    match check_recorded_content(&raw, &sources) {
        Ok(n) => run.count("file_entries_resolved_and_compared", n),
        Err((class, detail)) => {
            // one family has a signature of its own (known finding K2): some operation was
            // answered "not found" about a file that IS there - a probe for a band's head or
            // tail, the read of a head or of a hunk - so that a band, or the rest of one, passed
            // for absent and an older band became the basis for paths it covers
            let lying_not_found = fr.log.iter().any(|e| {
                e.injected
                    && matches!(e.verb, V::Metadata | V::Read)
                    && e.result == Some(Err(conserve::transport::ErrorKind::NotFound))
                    && matches!(before.get(&e.path), Some(FsItem::File(_)))
            });
            if class == "entry-resolves-to-wrong-bytes" && lying_not_found {
                run.violation(
                    "recorded-content:stale-basis-after-existing-file-reported-not-found",
                    format!("{} faults {:?}: {detail}", sc.desc, fr.log.iter().filter(|e| e.injected).map(|e| e.brief()).collect::<Vec<_>>()),
                    replay.clone(),
                );
            } else {
                viol("recorded-content", &class, detail);
            }
            return false;
        }
    }
    // 4. success means complete and exact; anything less means an error was reported
    let out = &fr.outcome;
    let reported = !out.ok() || !out.errors.is_empty() || out.value().map(|s| s.errors != 0).unwrap_or(true);
    let complete = raw.bands.get(&new_id).map(|b| b.has_head() && b.complete()).unwrap_or(false);
    let exact = complete
        && restore_and_compare(&fr.arch, Some(new_id), &sc.snap, sc.scratch(), &CmpOpts::default()).is_ok();
    if !reported {
        run.count("runs_reporting_full_success", 1);
        if !exact {
            let why = if !complete { "no complete band".to_string() } else {
                restore_and_compare(&fr.arch, Some(new_id), &sc.snap, sc.scratch(), &CmpOpts::default())
                    .err().map(|m| format!("{}: {}", m.class, m.detail)).unwrap_or_default()
            };
            viol("false-success", if complete { "restore-differs-from-source" } else { "band-not-complete" }, why);
            return false;
        }
    } else {
        run.count("runs_reporting_an_error", 1);
        if out.ok() {
            run.count("runs_ok_with_counted_errors", 1);
        }
    }
    if exact {
        run.count("runs_exact_restore", 1);
    }
    true
}

/// `cv c04-child <arch> <src> <hunk> <block> <cap> <limit>`: one backup with the kernel refusing
/// to let any file grow beyond <limit> bytes (RLIMIT_FSIZE, SIGXFSZ ignored): every larger write
/// to the archive fails part-way inside the real local transport (EFBIG), which an interceptor
/// that replaces the operation cannot produce.
pub fn child(args: &[String]) -> i32 {
    let arch = std::path::PathBuf::from(&args[0]);
    let src = std::path::PathBuf::from(&args[1]);
    let o = crate::cs::Opts { hunk: args[2].parse().unwrap(), block: args[3].parse().unwrap(), cap: args[4].parse().unwrap() };
    let limit: u64 = args[5].parse().unwrap();
    unsafe {
        libc::signal(libc::SIGXFSZ, libc::SIG_IGN);
        let r = libc::rlimit { rlim_cur: limit, rlim_max: limit };
        if libc::setrlimit(libc::RLIMIT_FSIZE, &r) != 0 {
            println!("RESULT {}", json!({"harness_error": "setrlimit failed"}));
            return 3;
        }
    }
    let out = crate::cs::backup(crate::cs::local(&arch), &src, o, &[], None);
    println!(
        "RESULT {}",
        json!({"ok": out.ok(), "panic": out.panic, "err": match &out.result { Some(Err(e)) => Some(e.clone()), _ => None },
            "errors": out.errors.len(), "stats_errors": out.value().map(|s| s.errors)})
    );
    0
}

/// Real partial writes: the backup under test runs in a child process under a file-size limit,
/// then a fault-free backup of the same source follows. Same oracle as for injected faults.
fn partial_write_runs(run: &Run, sc: &Scenario, case: u64, before: &BTreeMap<String, FsItem>) {
    let exe = std::env::current_exe().expect("exe");
    let only = run.replay.as_ref().and_then(|r| r.get("partial_write_limit")).and_then(|l| l.as_u64());
    // a private copy of the source with two incompressible files of several 1000-byte blocks,
    // backed up with max_block_size 1000: under limits of a few hundred bytes the heads, tails
    // and hunks still fit while every such block is cut off part-way
    let src2 = sc.scratch().fresh("src-partial");
    crate::tree::sync_to_disk(None, &sc.snap, &src2).expect("materialise copy of the source");
    {
        let mut rng = crate::rng::Rng::for_case(run.seed, case, 41);
        std::fs::write(src2.join("zlarge1"), rng.bytes(2500)).unwrap();
        std::fs::write(src2.join("zlarge2"), rng.bytes(1700)).unwrap();
    }
    let snap2 = crate::tree::snapshot(&src2).expect("snapshot");
    let popts = crate::cs::Opts { hunk: sc.opts.hunk, block: 1000, cap: sc.opts.cap };
    for limit in [16u64, 80, 150, 400, 700] {
        if only.is_some() && only != Some(limit) {
            continue;
        }
        let arch = sc.work_copy();
        let outp = std::process::Command::new(&exe)
            .arg("c04-child")
            .arg(&arch)
            .arg(&src2)
            .arg(popts.hunk.to_string())
            .arg(popts.block.to_string())
            .arg(popts.cap.to_string())
            .arg(limit.to_string())
            .output()
            .expect("spawn child");
        let stdout = String::from_utf8_lossy(&outp.stdout);
        let rep: Option<Value> = stdout.lines().find_map(|l| l.strip_prefix("RESULT ")).and_then(|r| serde_json::from_str(r).ok());
        run.eval();
        run.count("partial_write_runs", 1);
        let replay = json!({"case": case, "partial_write_limit": limit, "scenario": sc.desc});
        let viol = |phase: &str, class: &str, detail: String| {
            run.violation(format!("{phase}:{class}@partial-write"), format!("{} file-size limit {limit}: {detail}", sc.desc), replay.clone());
        };
        let Some(rep) = rep else {
            viol("backup", "child-crashed", format!("status {:?}, stderr {}", outp.status, String::from_utf8_lossy(&outp.stderr).lines().last().unwrap_or("")));
            crate::scratch::rm(&arch);
            continue;
        };
        if let Some(p) = rep["panic"].as_str() {
            viol("backup-panic", &panic_site(p), p.to_string());
            crate::scratch::rm(&arch);
            continue;
        }
        if rep["errors"].as_u64().unwrap_or(0) > 0 || rep["stats_errors"].as_u64().unwrap_or(0) > 0 || !rep["ok"].as_bool().unwrap_or(false) {
            run.count("partial_write_runs_with_errors", 1);
        }
        // earlier data untouched
        let after = fmt06::dir_bytes(&arch);
        let mut bad = None;
        for (p, item) in before {
            if after.get(p) != Some(item) {
                bad = Some(p.clone());
                break;
            }
        }
        if let Some(p) = bad {
            viol("existing-file", "altered-or-removed", p);
            crate::scratch::rm(&arch);
            continue;
        }
        // a later, fault-free backup of the same source must be a true success
        let f = crate::cs::backup(crate::cs::local(&arch), &src2, popts, &[], None);
        let raw = fmt06::read_archive(&arch, true);
        let newest = raw.bands.keys().max().copied().unwrap_or(0);
        let mut sources = sc.prior_sources.clone();
        for id in raw.bands.keys() {
            if !sources.contains_key(id) {
                sources.insert(*id, snap2.clone());
            }
        }
        if let Err((class, detail)) = check_recorded_content(&raw, &sources) {
            viol("recorded-content-after-followup", &class, detail);
            crate::scratch::rm(&arch);
            continue;
        }
        let reported = !f.ok() || !f.errors.is_empty() || f.value().map(|s| s.errors != 0).unwrap_or(true);
        if !reported {
            if let Err(m) = restore_and_compare(&arch, Some(newest), &snap2, sc.scratch(), &CmpOpts::default()) {
                viol("false-success-of-later-backup", &m.class, m.detail);
                crate::scratch::rm(&arch);
                continue;
            }
            run.count("partial_write_followups_exact", 1);
        }
        crate::scratch::rm(&arch);
    }
}

fn one_scenario(run: &Run, case: u64) {
    let sc = scenario::build(run.seed, case, "c04");
    let n = sc.trace.len();
    let before = fmt06::dir_bytes(sc.prior_arch());
    run.count("scenarios", 1);
    run.sample(|| json!({"case": case, "scenario": sc.desc, "trace_len": n,
        "trace": sc.trace.iter().map(|e| e.brief()).collect::<Vec<_>>()}));
    let r = run.replay.clone();
    let only_k = r.as_ref().and_then(|r| r.get("k")).and_then(|k| k.as_u64()).map(|k| k as usize);
    let only_kind = r.as_ref().and_then(|r| r.get("kind")).and_then(|k| k.as_str()).map(String::from);
    let only_random = r.as_ref().and_then(|r| r.get("random_run")).and_then(|k| k.as_u64());
    if r.as_ref().and_then(|r| r.get("partial_write_limit")).is_some() {
        partial_write_runs(run, &sc, case, &before);
        return;
    }
    if only_random.is_none() && r.as_ref().and_then(|r| r.get("kind2")).is_none() {
        for k in 0..n {
            if only_k.is_some() && only_k != Some(k) {
                continue;
            }
            for kind in KINDS {
                if only_kind.is_some() && only_kind.as_deref() != Some(kind_name(kind)) {
                    continue;
                }
                if run.out_of_time() {
                    run.count("faults_skipped_by_time_budget", 1);
                    continue;
                }
                let fr = sc.run_with(Mode::FailAt { k, kind }, 0);
                run.eval();
                run.count("single_faults", 1);
                if let Some(e) = &fr.at {
                    run.count(&format!("fault_at_{}", e.verb.name()), 1);
                    run.observe("fault_classes", fault_desc(&fr));
                    run.nontrivial(fnv(format!("{}|{}|{}|{}", sc.desc, k, e.path, kind_name(kind)).as_bytes()));
                }
                let replay = json!({"case": case, "k": k, "kind": kind_name(kind), "scenario": sc.desc,
                    "at": fr.at.as_ref().map(|e| e.brief())});
                check_fault_run(run, &sc, &fr, &before, &replay);
                crate::scratch::rm(&fr.arch);
            }
        }
    }
    // two consecutive faults: operation k fails, and so does whatever the program does next
    // (a retry, a cleanup, the next step); every write and every third other operation
    let only_pair = r.as_ref().and_then(|r| r.get("kind2")).and_then(|k| k.as_str()).map(String::from);
    if only_random.is_none() && (only_k.is_none() || only_pair.is_some()) {
        for k in 0..n {
            if only_k.is_some() && only_k != Some(k) {
                continue;
            }
            if sc.trace[k].verb != V::Write && k % 3 != (case % 3) as usize {
                continue;
            }
            for kind in KINDS {
                for kind2 in KINDS {
                    if only_pair.is_some() && (only_kind.as_deref() != Some(kind_name(kind)) || only_pair.as_deref() != Some(kind_name(kind2))) {
                        continue;
                    }
                    if run.out_of_time() {
                        run.count("faults_skipped_by_time_budget", 1);
                        continue;
                    }
                    let fr = sc.run_with(Mode::FailAtPair { k, kind, kind2 }, 0);
                    run.eval();
                    run.count("fault_pairs", 1);
                    if fr.injected >= 2 {
                        run.count("fault_pairs_both_injected", 1);
                        let second = fr.log.iter().filter(|e| e.injected).nth(1).map(|e| format!("{}:{}", e.verb.name(), path_class(&e.path))).unwrap_or_default();
                        run.observe("second_fault_classes", second);
                    }
                    let replay = json!({"case": case, "k": k, "kind": kind_name(kind), "kind2": kind_name(kind2), "scenario": sc.desc,
                        "injected": fr.log.iter().filter(|e| e.injected).map(|e| e.brief()).collect::<Vec<_>>()});
                    check_fault_run(run, &sc, &fr, &before, &replay);
                    crate::scratch::rm(&fr.arch);
                }
            }
        }
    }
    // persistent faults: every operation of one kind on one path fails, however often it is
    // tried again
    let only_path = r.as_ref().and_then(|r| r.get("persistent_path")).and_then(|k| k.as_str()).map(String::from);
    if (only_k.is_none() && only_random.is_none()) || only_path.is_some() {
        let mut targets: Vec<(V, String)> = sc.trace.iter().map(|e| (e.verb, e.path.clone())).collect();
        targets.sort();
        targets.dedup();
        for (verb, path) in targets {
            if only_path.is_some() && only_path.as_deref() != Some(path.as_str()) {
                continue;
            }
            for kind in [conserve::transport::ErrorKind::Other, conserve::transport::ErrorKind::PermissionDenied] {
                if run.out_of_time() {
                    run.count("faults_skipped_by_time_budget", 1);
                    continue;
                }
                let fr = sc.run_with(Mode::FailPath { verb, path: path.clone(), kind }, 0);
                run.eval();
                run.count("persistent_faults", 1);
                let replay = json!({"case": case, "persistent_path": path, "verb": verb.name(), "kind": kind_name(kind), "scenario": sc.desc});
                check_fault_run(run, &sc, &fr, &before, &replay);
                crate::scratch::rm(&fr.arch);
            }
        }
    }
    if only_k.is_none() && only_random.is_none() && only_path.is_none() {
        partial_write_runs(run, &sc, case, &before);
    }
    // random multi-fault sequences
    let n_random = run.tier.pick(40u64, 300);
    for i in 0..n_random {
        if only_k.is_some() || (only_random.is_some() && only_random != Some(i)) {
            continue;
        }
        if run.out_of_time() {
            break;
        }
        let p = [0.02, 0.1, 0.3][(i % 3) as usize];
        let fr = sc.run_with(Mode::FailRandom { p }, run.seed ^ (case << 20) ^ i);
        run.eval();
        run.count("random_multi_fault_runs", 1);
        run.count("random_faults_injected", fr.injected as u64);
        let injected: Vec<String> = fr.log.iter().filter(|e| e.injected).map(|e| e.brief()).collect();
        run.nontrivial(fnv(injected.join("|").as_bytes()) ^ case);
        let replay = json!({"case": case, "random_run": i, "p": p, "scenario": sc.desc, "injected": injected});
        check_fault_run(run, &sc, &fr, &before, &replay);
        crate::scratch::rm(&fr.arch);
    }
}

pub fn run(tier: Tier, replay: Option<Value>) -> i32 {
    let run = Run::new("C04", "fault_enumeration", tier, replay);
    let n = tier.pick(8, 300);
    run.par_cases(n, super::threads(), |case| one_scenario(&run, case));
    run.finish(
        "scenarios as in C03 (small blocks so combined-block flushes happen mid-run); for EVERY operation k of the backup's storage trace and each kind in {not-found, already-exists, permission-denied, other} the operation is made to fail (not executed, error returned); plus random multi-fault runs with p in {0.02, 0.1, 0.3}; plus REAL partial writes: the backup runs in a child process under RLIMIT_FSIZE in {16, 80, 150, 400, 700} bytes, on a copy of the source that also holds two incompressible multi-block files (max_block_size 1000), so that heads, tails and hunks fit while blocks are cut off (every larger archive write fails part-way inside the real local transport), followed by a fault-free backup of the same source that must then be a true success. After each run: no panic and no unbounded storage loop; every file that existed before is byte-identical; earlier versions restore exactly; every file entry of every hunk of every band, decoded independently, resolves through the raw blocks to exactly the bytes its path had in that band's source; a run that reports full success (Ok, stats.errors==0, no monitor error) has a tail and restores the source exactly. Distinct = (scenario, k, path, kind) resp. the injected set.",
        &["an injected fault returns an error without executing the operation", "E2 reader trusted (snap, serde_json, blake2-rfc)"],
        Some(true),
        &[("single_faults", 100), ("fault_at_write", 20), ("file_entries_resolved_and_compared", 200), ("runs_reporting_an_error", 10), ("runs_reporting_full_success", 1), ("random_multi_fault_runs", 10), ("partial_write_runs", 8), ("partial_write_runs_with_errors", 2), ("partial_write_followups_exact", 2), ("fault_pairs_both_injected", 200), ("persistent_faults", 100)],
    )
}
