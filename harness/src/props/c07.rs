//! C07 — archive files are write-once: backup never alters or removes existing files.

use std::collections::{BTreeMap, BTreeSet};
use std::sync::Arc;

use conserve::Archive;
use serde_json::{Value, json};

use crate::cs::{self, Opts};
use crate::fmt06::{self, FsItem};
use crate::history::{StepKind, StepReport, World, random_opts};
use crate::icept::{Ev, FState, V};
use crate::oracle::restore_and_compare;
use crate::props::c03::path_class;
use crate::report::{Run, Tier, panic_site};
use crate::rng::{Rng, fnv};
use crate::sched::{Plan, Sched, run_two};
use crate::tree::{self, CmpOpts, GenParams, Node, gen_content};

fn band_of_path(p: &str) -> Option<u32> {
    let first = p.split('/').next()?;
    let rest = first.strip_prefix('b')?;
    if rest.is_empty() || !rest.bytes().all(|b| b.is_ascii_digit()) {
        return None;
    }
    rest.parse().ok()
}

/// The write-once rules for the storage operations of backup actors. Returns (sig, detail).
pub fn check_backup_events(events: &[Ev], backup_actors: &[u32]) -> Result<u64, (String, String)> {
    let mut written: BTreeSet<&str> = BTreeSet::new();
    let mut n = 0;
    for e in events.iter().filter(|e| backup_actors.contains(&e.actor) && e.verb.mutating()) {
        n += 1;
        let pc = path_class(&e.path);
        match e.verb {
            V::RemoveFile | V::RemoveDirAll => {
                return Err((format!("backup-issued-{}:{pc}", e.verb.name()), e.brief()));
            }
            V::CreateDir => {}
            V::Write => {
                if e.create_new != Some(true) {
                    return Err((format!("backup-write-not-create-new:{pc}"), e.brief()));
                }
                if e.injected || e.result.is_none() {
                    continue;
                }
                let pre_nonempty = matches!(e.pre, Some(FState::File { len, .. }) if len > 0);
                if e.ok() {
                    if pre_nonempty {
                        return Err((
                            format!("write-replaced-existing-file:{pc}"),
                            format!("{}: CreateNew write succeeded over an existing non-empty file (pre {:?}, post {:?})", e.brief(), e.pre, e.post),
                        ));
                    }
                    if !written.insert(e.path.as_str()) {
                        return Err((format!("path-written-twice:{pc}"), e.brief()));
                    }
                    match &e.post {
                        Some(FState::File { len, h }) if *len as usize == e.payload_len && *h == e.payload_h => {}
                        other => {
                            return Err((
                                format!("write-ok-but-content-differs:{pc}"),
                                format!("{}: payload {} bytes, file afterwards {:?}", e.brief(), e.payload_len, other),
                            ));
                        }
                    }
                } else if pre_nonempty && e.post != e.pre {
                    return Err((
                        format!("failed-write-damaged-existing-file:{pc}"),
                        format!("{}: pre {:?} post {:?}", e.brief(), e.pre, e.post),
                    ));
                }
            }
            _ => {}
        }
    }
    Ok(n)
}

/// Every file present before is present after with the same bytes (zero-length leftovers may
/// have been completed).
pub fn check_only_added(before: &BTreeMap<String, FsItem>, after: &BTreeMap<String, FsItem>) -> Result<(), (String, String)> {
    for (p, item) in before {
        match (item, after.get(p)) {
            (_, None) => return Err((format!("existing-path-removed:{}", path_class(p)), p.clone())),
            (FsItem::File(b), Some(FsItem::File(a))) => {
                if a != b && !b.is_empty() {
                    return Err((format!("existing-file-altered:{}", path_class(p)), p.clone()));
                }
            }
            (FsItem::Dir, Some(FsItem::Dir)) => {}
            _ => return Err((format!("existing-path-changed-kind:{}", path_class(p)), p.clone())),
        }
    }
    Ok(())
}

fn check_delete_events(rep: &StepReport, after: &BTreeMap<String, FsItem>, raw_before: &fmt06::Raw) -> Result<u64, (String, String)> {
    let kept: Vec<u32> = raw_before.bands.keys().copied().filter(|b| !rep.delete_ids.contains(b)).collect();
    let referenced = raw_before.referenced_blocks(kept.iter().copied());
    let mut n = 0;
    for e in rep.events.iter().filter(|e| e.verb.mutating()) {
        n += 1;
        match e.verb {
            V::Write if e.path == "GC_LOCK" && e.create_new == Some(true) => {}
            V::RemoveFile if e.path == "GC_LOCK" => {}
            V::RemoveDirAll => {
                let ok = band_of_path(&e.path).map(|b| rep.delete_ids.contains(&b) && e.path == fmt06::band_dirname(b)).unwrap_or(false);
                if !ok {
                    return Err(("delete-removed-unrequested-directory".into(), e.brief()));
                }
            }
            V::RemoveFile if path_class(&e.path) == "block" => {
                let name = e.path.rsplit('/').next().unwrap();
                if referenced.contains(name) {
                    return Err(("delete-removed-referenced-block".into(), e.brief()));
                }
            }
            _ => return Err((format!("delete-issued-unexpected-{}:{}", e.verb.name(), path_class(&e.path)), e.brief())),
        }
    }
    // what disappeared is what was allowed to
    for p in rep.before.keys() {
        if after.contains_key(p) {
            continue;
        }
        let allowed = p == "GC_LOCK"
            || band_of_path(p).map(|b| rep.delete_ids.contains(&b)).unwrap_or(false)
            || (path_class(p) == "block" && !referenced.contains(p.rsplit('/').next().unwrap()));
        if !allowed {
            return Err((format!("delete-removed:{}", path_class(p)), p.clone()));
        }
    }
    Ok(n)
}

fn one_history(run: &Run, case: u64) {
    let mut rng = Rng::for_case(run.seed, case, 9);
    let block = *rng.pick(&[7usize, 64, 1000]);
    let cap = *rng.pick(&[0u64, 10, 64]);
    let mut p = GenParams::small(block, cap);
    p.target_entries = 5 + rng.below(8) as usize;
    p.max_plain_size = 4096;
    p.hostile_mtimes = false;
    let mut w = World::new("c07", &mut rng, p, run.seed ^ case);
    if case % 25 == 3 {
        // scale: hundreds of entries and blocks, long names, deep nesting
        w.widen(&mut rng);
        run.count("histories_on_wide_and_deep_trees", 1);
    }
    let n_steps = 8 + rng.below(run.tier.pick(10, 16)) as usize;
    let mut descs: Vec<String> = Vec::new();
    let mut interesting = false;
    run.eval();
    for step in 0..n_steps {
        let raw_before = w.raw(false);
        // interrupted backups here include torn writes
        let rep = if !w.sources.is_empty() && rng.chance(1, 4) {
            let o = random_opts(&mut rng);
            let trace = w.measure_trace(o);
            let n = trace.len();
            let writes: Vec<usize> = trace.iter().filter(|e| e.verb == V::Write).map(|e| e.idx).collect();
            if !writes.is_empty() && rng.chance(2, 3) {
                let k = *rng.pick(&writes);
                w.interrupted_backup(o, k, n, true)
            } else {
                let k = rng.below(n as u64 + 1) as usize;
                w.interrupted_backup(o, k, n, false)
            }
        } else {
            w.random_step(&mut rng)
        };
        descs.push(rep.desc.clone());
        let replay = json!({"case": case, "step": step, "history": descs});
        let after = fmt06::dir_bytes(&w.arch);
        // now and then: someone else's GC_LOCK is in place (another collector at work, or one
        // that was killed) when a delete, gc or dry run is attempted; it must remove nothing,
        // that lock least of all
        if !w.sources.is_empty() && rng.chance(1, 5) {
            std::fs::write(w.arch.join("GC_LOCK"), b"{}\n").unwrap();
            let locked_before = fmt06::dir_bytes(&w.arch);
            let ids: Vec<u32> = if rng.chance(1, 2) { Vec::new() } else { vec![*rng.pick(&w.sources.keys().copied().collect::<Vec<_>>())] };
            let dry = rng.chance(1, 2);
            let out = cs::delete(cs::local(&w.arch), &w.arch, &ids, dry, false);
            let locked_after = fmt06::dir_bytes(&w.arch);
            run.count("delete_attempts_under_a_foreign_lock", 1);
            if locked_after != locked_before {
                let gone: Vec<&String> = locked_before.keys().filter(|k| !locked_after.contains_key(*k)).take(3).collect();
                run.violation(
                    if !locked_after.contains_key("GC_LOCK") { "delete-removed-foreign-lock" } else { "delete-under-foreign-lock-changed-archive" },
                    format!("after {}: delete {ids:?} dry={dry} with someone else's GC_LOCK present returned {} and removed {gone:?}", rep.desc, out.describe()),
                    json!({"case": case, "step": step, "history": descs, "locked_delete": ids, "dry": dry}),
                );
                return;
            }
            std::fs::remove_file(w.arch.join("GC_LOCK")).unwrap();
        }
        match rep.kind {
            StepKind::Backup | StepKind::Interrupted => {
                if rep.kind == StepKind::Interrupted {
                    interesting = true;
                    run.count("interrupted_or_torn_backups", 1);
                    if let Some(e) = rep.events.iter().find(|e| e.injected) {
                        if rep.crash.map(|c| c.2).unwrap_or(false) && e.verb == V::Write {
                            run.count(&format!("torn_{}", path_class(&e.path)), 1);
                        }
                    }
                } else if rep.newest_incomplete_before {
                    run.count("resumed_backups", 1);
                }
                match check_backup_events(&rep.events, &[1]) {
                    Ok(n) => run.count("backup_mutating_ops_checked", n),
                    Err((sig, d)) => {
                        run.violation(sig, format!("{}: {d}", rep.desc), replay);
                        return;
                    }
                }
                if let Err((sig, d)) = check_only_added(&rep.before, &after) {
                    run.violation(sig, format!("{}: {d}", rep.desc), replay);
                    return;
                }
                for (p, item) in &rep.before {
                    if let (FsItem::File(b), Some(FsItem::File(a))) = (item, after.get(p)) {
                        if b.is_empty() && !a.is_empty() {
                            run.count("zero_length_leftovers_completed", 1);
                        }
                    }
                }
                if let Some(nb) = rep.new_band {
                    let max_before = raw_before.bands.keys().max().copied();
                    if max_before.map(|m| nb <= m).unwrap_or(false) {
                        run.violation("band-id-not-above-existing", format!("{}: new b{nb:04}, existing max {max_before:?}", rep.desc), replay);
                        return;
                    }
                    run.count("new_bands_checked", 1);
                }
            }
            StepKind::Delete | StepKind::Gc => {
                match check_delete_events(&rep, &after, &raw_before) {
                    Ok(n) => run.count("delete_mutating_ops_checked", n),
                    Err((sig, d)) => {
                        run.violation(sig, format!("{}: {d}", rep.desc), replay);
                        return;
                    }
                }
            }
            StepKind::Mutate => {
                if after != rep.before {
                    run.violation("archive-changed-without-operation", rep.desc.clone(), replay);
                    return;
                }
            }
        }
    }
    run.count("histories_completed", 1);
    if interesting {
        run.nontrivial(fnv(descs.join("|").as_bytes()));
    }
    run.sample(|| json!({"case": case, "history": descs}));
}

/// Scale: versions of more than 10 000 index hunks (two hunk subdirectories) through backup,
/// gc and delete, under the same rules.
fn many_hunks(run: &Run) {
    let mut w = crate::history::many_hunks_world("c07big", run.seed);
    let o = crate::history::MANY_HUNKS_OPTS;
    let mut descs: Vec<String> = Vec::new();
    run.eval();
    let steps: [&str; 5] = ["backup", "change+backup", "gc", "delete-newest", "gc"];
    for (step, what) in steps.iter().enumerate() {
        let raw_before = w.raw(false);
        let rep = match *what {
            "backup" => w.backup(o),
            "change+backup" => {
                let mut spec = w.spec.clone();
                for i in [3u32, 4_999, 9_998, 9_999, 10_000, 10_039] {
                    let mut n = tree::Node::file(format!("changed {i}").into_bytes());
                    n.mtime_s = 1_700_000_000 + i as i64;
                    spec.insert(format!("/f{i:05}"), n);
                }
                spec.remove("/f00007");
                spec.remove("/f10001");
                w.set_spec(spec);
                w.backup(o)
            }
            "gc" => w.delete(&[], false),
            _ => {
                let newest = *raw_before.bands.keys().max().unwrap();
                w.delete(&[newest], false)
            }
        };
        descs.push(format!("[10 040-file tree, 1 entry per hunk] {}", rep.desc));
        let replay = json!({"many_hunks": true, "step": step, "history": descs});
        let after = fmt06::dir_bytes(&w.arch);
        let res = match rep.kind {
            StepKind::Backup => {
                if !rep.backup.as_ref().map(|b| b.clean()).unwrap_or(false) {
                    Err(("many-hunks-backup-failed".to_string(), rep.backup.as_ref().unwrap().describe()))
                } else {
                    check_backup_events(&rep.events, &[1]).and_then(|n| {
                        run.count("backup_mutating_ops_checked", n);
                        check_only_added(&rep.before, &after)
                    })
                }
            }
            _ => {
                if !rep.delete.as_ref().map(|d| d.ok()).unwrap_or(false) {
                    Err(("many-hunks-delete-failed".to_string(), rep.delete.as_ref().unwrap().describe()))
                } else {
                    check_delete_events(&rep, &after, &raw_before).map(|n| run.count("delete_mutating_ops_checked", n))
                }
            }
        };
        if let Err((sig, d)) = res {
            run.violation(sig, format!("{}: {d}", descs.last().unwrap()), replay);
            return;
        }
        let raw = w.raw(true);
        if raw.bands.values().any(|b| b.hunks.len() > 10_000) {
            run.count("steps_on_archives_with_more_than_10000_hunks_in_a_band", 1);
        }
        // every remaining version still has all its blocks
        for id in raw.bands.keys() {
            let d = raw.dangling_refs(*id);
            if !d.is_empty() {
                run.violation("referenced-block-gone", format!("{}: b{id:04}: {:?}", descs.last().unwrap(), &d[..d.len().min(3)]), replay);
                return;
            }
        }
    }
    let (id, snap) = w.sources.iter().next().map(|(a, b)| (*a, b.clone())).unwrap();
    if let Err(m) = crate::oracle::restore_and_compare(&w.arch, Some(id), &snap, &w.sc, &tree::CmpOpts::default()) {
        run.violation(format!("many-hunks:{}", m.class), m.detail, json!({"many_hunks": true, "history": descs}));
    }
}

// ---------------------------------------------------------------------------
// two concurrent backups

const A1: u32 = 1;
const A2: u32 = 2;

struct Race {
    world: World,
    src2: std::path::PathBuf,
    snap2: tree::Snapshot,
    opts: Opts,
    desc: String,
}

fn build_race(seed: u64, case: u64) -> Race {
    let mut rng = Rng::for_case(seed, case, 10);
    let opts = Opts { hunk: *rng.pick(&[2usize, 100_000]), block: 64, cap: 16 };
    let mut p = GenParams::small(opts.block, opts.cap);
    p.target_entries = 4 + rng.below(3) as usize;
    p.max_plain_size = 200;
    p.hostile_mtimes = false;
    p.hostile_modes = false;
    p.owners = false;
    let mut w = World::new("c07r", &mut rng, p, seed ^ (case << 7));
    if case % 2 == 1 {
        let r = w.backup(opts);
        assert!(r.backup.as_ref().unwrap().ok());
        w.mutate(&mut rng, 2);
    }
    // second source: differs from the first, shares some content (same block names)
    let mut spec2 = w.spec.clone();
    let mut n = Node::file(gen_content(&mut rng, 100));
    (n.mtime_s, n.mtime_ns) = w.clock.next(&mut rng);
    spec2.insert("/only-in-2".into(), n);
    let keys: Vec<String> = spec2.iter().filter(|(p, n)| n.kind == tree::Kind::File && p.as_str() != "/only-in-2").map(|(p, _)| p.clone()).collect();
    if let Some(k) = keys.first() {
        let nd = spec2.get_mut(k).unwrap();
        nd.content = gen_content(&mut rng, 30);
        (nd.mtime_s, nd.mtime_ns) = w.clock.next(&mut rng);
    }
    let src2 = w.sc.join("src2");
    tree::sync_to_disk(None, &spec2, &src2).unwrap();
    let snap2 = tree::snapshot(&src2).unwrap();
    let desc = format!("two backups, prior versions {}, {}", w.sources.len(), opts.label());
    Race { world: w, src2, snap2, opts, desc }
}

fn run_race(run: &Run, rc: &Race, case: u64, plan: &Plan) {
    run_race_with(run, rc, case, plan, None)
}

/// `fault`: the second backup's write of its BANDHEAD fails once with this kind.
fn run_race_with(run: &Run, rc: &Race, case: u64, plan: &Plan, fault: Option<conserve::transport::ErrorKind>) {
    let arch = rc.world.sc.fresh("race");
    fmt06::copy_dir(&rc.world.arch, &arch);
    let before = fmt06::dir_bytes(&arch);
    let s = Sched::new(&arch, &[A1, A2]);
    if let Some(kind) = fault {
        s.set_fault(A2, V::Write, "*BANDHEAD", 0, kind);
        run.count("race_schedules_run_with_a_fault_on_a_bandhead_write", 1);
    }
    let (src1, src2, opts) = (rc.world.src.clone(), rc.src2.clone(), rc.opts);
    let body = |src: std::path::PathBuf| -> crate::sched::ActorBody<conserve::BackupStats> {
        Box::new(move |t, m| {
            Box::pin(async move {
                let archive = Archive::open(t).await.map_err(cs::errstr)?;
                conserve::backup(&archive, &src, &cs::backup_opts(opts, &[], None), m)
                    .await
                    .map_err(cs::errstr)
            })
        })
    };
    let (o1, o2, d) = run_two(&s, (A1, body(src1)), (A2, body(src2)), plan);
    run.eval();
    if let Some(e) = d.error {
        run.inconclusive(format!("{e} ({plan:?})"));
        crate::scratch::rm(&arch);
        return;
    }
    run.count("race_schedules_run", 1);
    let log = s.log();
    let sig: String = log.iter().map(|e| format!("{}{}", e.actor, e.verb.name().len())).collect();
    run.nontrivial(fnv(format!("{case}|{sig}").as_bytes()));
    let mut replay = json!({"race": true, "case": case, "plan": plan.to_json(), "scenario": rc.desc,
        "grants": log.iter().map(|e| e.brief()).collect::<Vec<_>>()});
    if let Some(kind) = fault {
        replay["bandhead_fault"] = json!(crate::icept::kind_name(kind));
    }
    run.count(&format!("race_outcome_{}_{}", if o1.ok() { "ok" } else { "err" }, if o2.ok() { "ok" } else { "err" }), 1);
    let result = (|| -> Result<(), (String, String)> {
        for (who, o) in [(A1, &o1), (A2, &o2)] {
            if let Some(p) = &o.panic {
                return Err((format!("race-backup-panic:{}", panic_site(p)), format!("actor {who}: {p}")));
            }
        }
        check_backup_events(&log, &[A1, A2]).map_err(|(s, d)| (format!("race:{s}"), d))?;
        let after = fmt06::dir_bytes(&arch);
        check_only_added(&before, &after).map_err(|(s, d)| (format!("race:{s}"), d))?;
        // each new band directory holds the writes of exactly one actor
        let mut owners: BTreeMap<u32, BTreeSet<u32>> = BTreeMap::new();
        let mut head_writer: BTreeMap<u32, u32> = BTreeMap::new();
        for e in log.iter().filter(|e| e.verb == V::Write && e.ok()) {
            if let Some(b) = band_of_path(&e.path) {
                owners.entry(b).or_default().insert(e.actor);
                if path_class(&e.path) == "BANDHEAD" {
                    head_writer.insert(b, e.actor);
                }
            }
        }
        for (b, who) in &owners {
            if who.len() > 1 {
                return Err(("race:band-written-by-both-backups".into(), format!("b{b:04} has successful writes from actors {who:?}")));
            }
        }
        // who tried to create which band
        let mut tried: BTreeMap<u32, BTreeSet<u32>> = BTreeMap::new();
        for e in log.iter().filter(|e| e.verb == V::Write && path_class(&e.path) == "BANDHEAD") {
            if let Some(b) = band_of_path(&e.path) {
                tried.entry(b).or_default().insert(e.actor);
            }
        }
        for (b, who) in &tried {
            if who.len() > 1 {
                run.count("races_on_the_same_band_id", 1);
                let oks = [(A1, o1.ok()), (A2, o2.ok())].iter().filter(|(a, ok)| who.contains(a) && *ok).count();
                if oks != 1 {
                    return Err((
                        "race:same-band-id-not-exactly-one-winner".into(),
                        format!("both backups chose b{b:04}; {} of them returned Ok", oks),
                    ));
                }
            }
        }
        // every complete band restores the source of the backup that owns it
        let raw = fmt06::read_archive(&arch, false);
        for b in raw.complete_bands() {
            let expected = match head_writer.get(&b) {
                Some(&A1) => &rc.world.snap,
                Some(&A2) => &rc.snap2,
                _ => match rc.world.sources.get(&b) {
                    Some(s) => s,
                    None => continue,
                },
            };
            let owner_reported_errors = match head_writer.get(&b) {
                Some(&A1) => !o1.errors.is_empty() || o1.value().map(|s| s.errors > 0).unwrap_or(true),
                Some(&A2) => !o2.errors.is_empty() || o2.value().map(|s| s.errors > 0).unwrap_or(true),
                _ => false,
            };
            if owner_reported_errors {
                // a backup that lost a race for a block reports errors; its version is then
                // allowed to be incomplete (C04 covers what it may contain)
                run.count("race_versions_with_reported_errors", 1);
                continue;
            }
            restore_and_compare(&arch, Some(b), expected, &rc.world.sc, &CmpOpts::default())
                .map_err(|m| (format!("race:{}", m.class), format!("b{b:04}: {}", m.detail)))?;
            run.count("race_versions_restored", 1);
        }
        Ok(())
    })();
    if let Err((sig, detail)) = result {
        run.violation(sig, format!("{} {plan:?}: {detail}", rc.desc), replay);
    }
    crate::scratch::rm(&arch);
}

// ---------------------------------------------------------------------------
// two collectors (a gc and a delete) racing for the lock

fn collector_race(run: &Run, tier: Tier) {
    // three versions sharing blocks plus garbage: the archive builder of C05
    let a = crate::props::c05::build_archive(run.seed, 1, "c07gc");
    let oldest = a.bands[0];
    if !a.world.raw(false).bands.values().last().map(|b| b.complete()).unwrap_or(false) {
        return;
    }
    let body = |ids: Vec<u32>| -> crate::sched::ActorBody<conserve::DeleteStats> {
        Box::new(move |t, m| {
            Box::pin(async move {
                let archive = Archive::open(t).await.map_err(cs::errstr)?;
                let ids: Vec<conserve::BandId> = ids.iter().map(|b| conserve::BandId::new(&[*b])).collect();
                archive
                    .delete_bands(&ids, &conserve::DeleteOptions { dry_run: false, break_lock: false }, m)
                    .await
                    .map_err(cs::errstr)
            })
        })
    };
    // sequential length
    let probe = {
        let arch = a.world.sc.fresh("probe");
        fmt06::copy_dir(&a.world.arch, &arch);
        let s = Sched::new(&arch, &[A1, A2]);
        let (_, _, d) = run_two(&s, (A1, body(vec![])), (A2, body(vec![oldest])), &Plan { first: A1, switches: vec![] });
        crate::scratch::rm(&arch);
        d.steps + 2
    };
    let mut rng = Rng::for_case(run.seed, 1, 14);
    let mut plans = Vec::new();
    for first in [A1, A2] {
        let other = if first == A1 { A2 } else { A1 };
        plans.push(Plan { first, switches: vec![] });
        for s1 in 1..probe {
            plans.push(Plan { first, switches: vec![(s1, other)] });
            // two preemptions: every pair early on (where the lock is taken), a grid later
            let stride = tier.pick(4, 1);
            let mut s2 = s1 + 1;
            while s2 < probe {
                if s1 <= 12 || s1 % stride == 0 {
                    plans.push(Plan { first, switches: vec![(s1, other), (s2, first)] });
                }
                s2 += if s2 <= 14 { 1 } else { stride };
            }
        }
    }
    if tier == Tier::Quick && plans.len() > 2500 {
        let keep: Vec<Plan> = plans.iter().filter(|p| p.switches.iter().all(|(s, _)| *s <= 14)).cloned().collect();
        rng.shuffle(&mut plans);
        plans.truncate(2500 - keep.len().min(2500));
        plans.extend(keep);
    }
    run.count("collector_race_scenarios", 1);
    let next = std::sync::atomic::AtomicUsize::new(0);
    std::thread::scope(|sc| {
        for _ in 0..super::threads() {
            sc.spawn(|| loop {
                let i = next.fetch_add(1, std::sync::atomic::Ordering::SeqCst);
                if i >= plans.len() {
                    break;
                }
                let plan = &plans[i];
                let arch = a.world.sc.fresh("gcrace");
                fmt06::copy_dir(&a.world.arch, &arch);
                let s = Sched::new(&arch, &[A1, A2]);
                let (o1, o2, _d) = run_two(&s, (A1, body(vec![])), (A2, body(vec![oldest])), plan);
                run.eval();
                run.count("collector_race_schedules_run", 1);
                let log = s.log();
                let replay = json!({"collector_race": true, "plan": plan.to_json(), "grants": log.iter().map(|e| e.brief()).collect::<Vec<_>>()});
                let viol = |sig: &str, detail: String| {
                    run.violation(sig.to_string(), format!("gc racing delete [{oldest}] {plan:?}: {detail} (gc {}, delete {})", o1.describe(), o2.describe()), replay.clone());
                };
                // who holds the lock: only its holder removes it or anything else
                let mut holder: Option<u32> = None;
                let mut bad = false;
                for e in log.iter().filter(|e| e.ok()) {
                    match (e.verb, e.path.as_str()) {
                        (V::Write, "GC_LOCK") => {
                            if let Some(h) = holder {
                                if h != e.actor {
                                    viol("collector-took-lock-held-by-another", e.brief());
                                    bad = true;
                                    break;
                                }
                            }
                            holder = Some(e.actor);
                            run.count("collector_lock_acquisitions", 1);
                        }
                        (V::RemoveFile, "GC_LOCK") => {
                            if holder != Some(e.actor) {
                                viol("collector-removed-lock-it-did-not-hold", format!("{} while the lock was held by {holder:?}", e.brief()));
                                bad = true;
                                break;
                            }
                            holder = None;
                        }
                        (V::RemoveFile, _) | (V::RemoveDirAll, _) => {
                            if holder != Some(e.actor) {
                                viol("collector-removed-files-without-holding-the-lock", format!("{} while the lock was held by {holder:?}", e.brief()));
                                bad = true;
                                break;
                            }
                        }
                        _ => {}
                    }
                }
                if !bad {
                    if o1.ok() && o2.ok() {
                        run.count("collector_races_both_succeeded_in_turn", 1);
                    } else {
                        run.count("collector_races_with_a_refused_collector", 1);
                    }
                    // kept versions are intact
                    let raw = fmt06::read_archive(&arch, true);
                    for b in a.bands.iter().filter(|b| **b != oldest) {
                        if !raw.dangling_refs(*b).is_empty() {
                            viol("collector-race-removed-referenced-block", format!("b{b:04}: {:?}", &raw.dangling_refs(*b)[..1]));
                            break;
                        }
                    }
                }
                crate::scratch::rm(&arch);
            });
        }
    });
}

fn race_plans(n: usize, tier: Tier, rng: &mut Rng) -> Vec<Plan> {
    let mut v = Vec::new();
    for first in [A1, A2] {
        let other = if first == A1 { A2 } else { A1 };
        v.push(Plan { first, switches: vec![] });
        for s in 1..n {
            v.push(Plan { first, switches: vec![(s, other)] });
        }
        let stride = tier.pick(3, 1);
        let mut s1 = 1;
        while s1 < n {
            let mut s2 = s1 + 1;
            while s2 < n {
                v.push(Plan { first, switches: vec![(s1, other), (s2, first)] });
                s2 += stride;
            }
            s1 += stride;
        }
    }
    for _ in 0..tier.pick(100, 1500) {
        let first = if rng.chance(1, 2) { A1 } else { A2 };
        let d = 3 + rng.below(4) as usize;
        let mut pts: Vec<usize> = (0..d).map(|_| 1 + rng.below(n as u64) as usize).collect();
        pts.sort();
        pts.dedup();
        let mut cur = first;
        v.push(Plan {
            first,
            switches: pts.into_iter().map(|p| { cur = if cur == A1 { A2 } else { A1 }; (p, cur) }).collect(),
        });
    }
    v
}

pub fn run(tier: Tier, replay: Option<Value>) -> i32 {
    let run = Run::new("C07", "exploration", tier, replay.clone());
    let is_race_replay = replay.as_ref().and_then(|r| r.get("race")).is_some();
    let scale_replay = replay.as_ref().and_then(|r| r.get("many_hunks")).is_some();
    let n = tier.pick(150, 6000);
    if replay.is_none() {
        super::alongside(&run, "the many-hunks history", || many_hunks(&run), || run.par_cases(n, super::threads(), |case| one_history(&run, case)));
    } else if scale_replay {
        super::alongside(&run, "the many-hunks history", || many_hunks(&run), || ());
    } else if !is_race_replay {
        run.par_cases(n, super::threads(), |case| one_history(&run, case));
    }
    if replay.is_none() || is_race_replay {
        for case in 0..tier.pick(3u64, 16) {
            if let Some(r) = &replay {
                if r.get("case").and_then(|c| c.as_u64()) != Some(case) {
                    continue;
                }
            }
            let rc = build_race(run.seed, case);
            // sequential length
            let probe = {
                let arch = rc.world.sc.fresh("probe");
                fmt06::copy_dir(&rc.world.arch, &arch);
                let ic = crate::icept::Icept::new(&arch, crate::icept::Mode::Log, 0);
                let _ = cs::backup(ic.transport(1), &rc.world.src, rc.opts, &[], None);
                let a = ic.n_ops();
                let ic2 = crate::icept::Icept::new(&arch, crate::icept::Mode::Log, 0);
                let _ = cs::backup(ic2.transport(2), &rc.src2, rc.opts, &[], None);
                let n = a + ic2.n_ops();
                crate::scratch::rm(&arch);
                n
            };
            let mut rng = Rng::for_case(run.seed, case, 13);
            let plans = if let Some(r) = &replay { vec![Plan::from_json(&r["plan"])] } else { race_plans(probe + 2, tier, &mut rng) };
            run.count("race_scenarios", 1);
            run.sample(|| json!({"race_case": case, "scenario": rc.desc, "sequential_steps": probe, "plans": plans.len()}));
            let rc = Arc::new(rc);
            let next = std::sync::atomic::AtomicUsize::new(0);
            std::thread::scope(|s| {
                for _ in 0..super::threads() {
                    s.spawn(|| loop {
                        let i = next.fetch_add(1, std::sync::atomic::Ordering::SeqCst);
                        if i >= plans.len() {
                            break;
                        }
                        if run.out_of_time() {
                            run.count("schedules_skipped_by_time_budget", 1);
                            continue;
                        }
                        let replay_fault = replay.as_ref().and_then(|r| r.get("bandhead_fault")).and_then(|k| k.as_str()).map(String::from);
                        if replay_fault.is_none() {
                            if let Err(m) = crate::report::guard(|| run_race(&run, &rc, case, &plans[i])) {
                                run.inconclusive(format!("harness error in race schedule: {m}"));
                            }
                        }
                        // the first scenario once more with the second backup's BANDHEAD write failing
                        // once: with a connection error (the kind a remote store gives) and an unspecific one
                        if case == 0 && (replay.is_none() || replay_fault.is_some()) {
                            for kind in [conserve::transport::ErrorKind::Connect, conserve::transport::ErrorKind::Other] {
                                if replay_fault.is_some() && replay_fault.as_deref() != Some(crate::icept::kind_name(kind)) {
                                    continue;
                                }
                                if let Err(m) = crate::report::guard(|| run_race_with(&run, &rc, case, &plans[i], Some(kind))) {
                                    run.inconclusive(format!("harness error in race schedule: {m}"));
                                }
                            }
                        }
                    });
                }
            });
        }
    }
    if replay.is_none() || replay.as_ref().and_then(|r| r.get("collector_race")).is_some() {
        if let Err(m) = crate::report::guard(|| collector_race(&run, tier)) {
            run.inconclusive(format!("harness error in the collector race: {m}"));
        }
    }
    let needs: &[(&str, u64)] = if replay.is_some() { &[] } else {
        &[("collector_race_schedules_run", 200), ("race_schedules_run_with_a_fault_on_a_bandhead_write", 100), ("collector_races_with_a_refused_collector", 20), ("backup_mutating_ops_checked", 200), ("delete_mutating_ops_checked", 20), ("interrupted_or_torn_backups", 5), ("race_schedules_run", 50), ("races_on_the_same_band_id", 5), ("steps_on_archives_with_more_than_10000_hunks_in_a_band", 3)]
    };
    run.finish(
        "part 1: histories as in C02, with backups killed at a random operation incl. torn writes, then resumed; the interceptor records for every mutating storage operation the actor, verb, write mode, payload hash and the pre/post state of the target read directly from disk; rules: a backup issues only create_dir and CreateNew writes, never removes, a successful write's target was absent or zero-length, a write onto a non-empty file fails and leaves it unchanged, no path is written twice, every earlier file is byte-identical afterwards (zero-length leftovers may be completed), the new band id exceeds every existing id; delete/gc removes only requested band directories, blocks that an independent reference scan of the kept bands does not reference, and its own GC_LOCK (with someone else's GC_LOCK in place a delete, gc or dry run must leave every file, that lock included, as it is); one history (backup, change, backup, gc, delete newest, gc) runs on a tree of 10 040 files with one entry per hunk, so that the kept versions have hunks in two index subdirectories. part 2: two concurrent backups of differing sources under the deterministic scheduler (all schedules with <=1 preemption, a grid / all of 2 preemptions, random 3-6 switches): same rules on the merged log, each band directory written by one actor only, same id chosen by both => exactly one returns Ok, every complete version whose backup reported no error restores its own source. The first race scenario is run once more under every schedule with the second backup's BANDHEAD write failing once (a connection error, an unspecific error). part 3: a gc and a delete of the oldest version race for the lock on one archive under the scheduler (all schedules with <= 1 preemption, all pairs of early switch points and a grid of later ones): on the merged log a GC_LOCK is written only while nobody else holds it, removed only by its holder, and band directories and blocks are removed only by the holder; afterwards no kept version has a dangling reference. Distinct = history text / grant sequence.",
        &["pre/post states are read while the issuing actor is the only one running", "schedules beyond the preemption bound are sampled"],
        Some(false),
        needs,
    )
}
