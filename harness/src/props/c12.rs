//! C12 — selecting a subtree returns exactly that subtree.

use serde_json::{Value, json};

use crate::cs::{self, Opts};
use crate::report::{Run, Tier, panic_site};
use crate::rng::Rng;
use crate::scratch::Scratch;
use crate::tree::{self, CmpOpts, Kind, Node, Snapshot, child_of, gen_content, is_under};

const NAMES12: &[&str] = &[
    "a", "ab", "a.b", "a b", "a-", "é", "éa", "é.b", "é b", "日", "日本", "ñ", "ña", "b", "a~",
];

fn gen_case_tree(rng: &mut Rng) -> Snapshot {
    let mut t = Snapshot::new();
    t.insert("/".into(), Node::dir());
    let mut dirs = vec!["/".to_string()];
    let target = 10 + rng.below(25) as usize;
    let mut tries = 0;
    while t.len() < target && tries < 400 {
        tries += 1;
        let d = rng.pick(&dirs).clone();
        let ap = child_of(&d, *rng.pick(NAMES12));
        if t.contains_key(&ap) {
            continue;
        }
        let depth = ap.matches('/').count();
        let roll = rng.below(10);
        let mut n = if roll < 4 && depth < 4 {
            dirs.push(ap.clone());
            Node::dir()
        } else if roll < 5 {
            Node::symlink("é/target")
        } else {
            let len = rng.below(40) as usize;
            Node::file(gen_content(rng, len))
        };
        n.mtime_s = 1_500_000_000 + rng.below(1_000_000) as i64;
        n.mtime_ns = rng.below(1_000_000_000) as u32;
        if n.kind != Kind::Symlink {
            n.mode = *rng.pick(&[0o755, 0o700, 0o644, 0o600, 0o750]);
        }
        t.insert(ap, n);
    }
    t
}

fn one_case(run: &Run, case: u64) {
    let mut rng = Rng::for_case(run.seed, case, 15);
    let spec = gen_case_tree(&mut rng);
    let sc = Scratch::new("c12");
    let src = sc.join("src");
    tree::sync_to_disk(None, &spec, &src).expect("materialise");
    let snap = tree::snapshot(&src).expect("snapshot");
    let arch = sc.join("arch");
    cs::create_archive(&arch);
    let o = Opts { hunk: *rng.pick(&[1usize, 3, 100_000]), block: 64, cap: 16 };
    let b = cs::backup(cs::local(&arch), &src, o, &[], None);
    let replay = json!({"case": case});
    run.eval();
    if !b.clean() {
        run.violation("backup-failed", b.describe(), replay);
        return;
    }
    let full = cs::list(cs::local(&arch), Some(0), "/", &[]);
    let Some(full) = full.value().cloned() else {
        run.violation("full-listing-failed", full.describe(), replay);
        return;
    };
    let full_paths: Vec<&str> = full.iter().map(|e| e.apath.as_str()).collect();
    {
        let mut a: Vec<&str> = full_paths.clone();
        a.sort();
        let b: Vec<&str> = snap.keys().map(|s| s.as_str()).collect();
        if a != b {
            run.violation("full-listing-differs-from-tree", format!("{a:?} vs {b:?}"), replay);
            return;
        }
    }
    let multibyte_dirs = snap.iter().filter(|(p, n)| n.kind == Kind::Dir && !p.is_ascii() && snap.keys().any(|q| q != *p && is_under(q, p))).count();
    if multibyte_dirs > 0 {
        run.count("trees_with_nonempty_multibyte_dir", 1);
    }
    let extending = snap.keys().any(|p| snap.keys().any(|q| q != p && q.starts_with(p.as_str()) && !is_under(q, p) && p != "/"));
    if extending {
        run.count("trees_with_sibling_extending_a_name", 1);
    }
    if multibyte_dirs > 0 || extending {
        run.nontrivial(tree::tree_sig(&snap));
    }
    run.sample(|| json!({"case": case, "paths": full_paths}));
    // listing: S over every entry and some non-existent paths
    let mut subtrees: Vec<String> = snap.keys().cloned().collect();
    for p in snap.keys().take(6).cloned().collect::<Vec<_>>() {
        subtrees.push(child_of(&p, "nonexistent"));
        if p != "/" {
            subtrees.push(format!("{p}é"));
            subtrees.push(format!("{p}0"));
        }
    }
    subtrees.push("/nonexistent".into());
    for s in &subtrees {
        let l = cs::list(cs::local(&arch), Some(0), s, &[]);
        run.eval();
        run.count("subtree_listings_compared", 1);
        if let Some(p) = &l.panic {
            run.violation(format!("listing-panic:{}", panic_site(p)), format!("subtree {s:?}: {p}"), json!({"case": case, "subtree": s}));
            return;
        }
        let want: Vec<&str> = full_paths.iter().copied().filter(|p| is_under(p, s)).collect();
        let got: Option<Vec<&str>> = l.value().map(|v| v.iter().map(|e| e.apath.as_str()).collect());
        if got.as_ref() != Some(&want) {
            let class = if !s.is_ascii() { "non-ascii-subtree" } else { "ascii-subtree" };
            run.violation(
                format!("subtree-listing-differs:{class}"),
                format!("subtree {s:?}: listed {got:?}, expected exactly {want:?}"),
                json!({"case": case, "subtree": s}),
            );
            return;
        }
        // the entries themselves are those of the full listing
        if let Some(v) = l.value() {
            for e in v {
                if full.iter().find(|f| f.apath == e.apath) != Some(e) {
                    run.violation("subtree-listing-entry-differs", format!("subtree {s:?}: {:?}", e.apath), json!({"case": case, "subtree": s}));
                    return;
                }
            }
        }
    }
    // restore: S over the directories
    let full_dest = sc.join("full");
    let r = cs::restore(cs::local(&arch), Some(0), &full_dest, None, &[], false);
    if !r.clean() {
        run.violation("full-restore-failed", r.describe(), replay);
        return;
    }
    let fsnap = tree::snapshot(&full_dest).expect("snapshot");
    let dirs: Vec<String> = snap.iter().filter(|(_, n)| n.kind == Kind::Dir).map(|(p, _)| p.clone()).collect();
    for s in &dirs {
        let dest = sc.fresh("sub");
        let r = cs::restore(cs::local(&arch), Some(0), &dest, Some(s), &[], false);
        run.eval();
        run.count("subtree_restores_compared", 1);
        let rp = json!({"case": case, "restore_subtree": s});
        if let Some(p) = &r.panic {
            run.violation(format!("restore-panic:{}", panic_site(p)), format!("only_subtree {s:?}: {p}"), rp);
            return;
        }
        if !r.clean() {
            run.violation("subtree-restore-reported-errors", format!("only_subtree {s:?}: {}", r.describe()), rp);
            return;
        }
        let rsnap = tree::snapshot(&dest).expect("snapshot");
        crate::scratch::rm(&dest);
        let expected: Snapshot = fsnap.iter().filter(|(p, _)| is_under(p, s)).map(|(p, n)| (p.clone(), n.clone())).collect();
        let actual_under: Snapshot = rsnap.iter().filter(|(p, _)| is_under(p, s)).map(|(p, n)| (p.clone(), n.clone())).collect();
        let d = tree::diff_snapshots(&expected, &actual_under, &CmpOpts::default());
        if !d.is_empty() {
            let class = if !s.is_ascii() { "non-ascii-subtree" } else { "ascii-subtree" };
            run.violation(
                format!("subtree-restore-differs-from-full-restore:{class}"),
                format!("only_subtree {s:?}: {}", d.iter().take(4).map(|(_, m)| m.as_str()).collect::<Vec<_>>().join("; ")),
                rp,
            );
            return;
        }
        for (p, n) in &rsnap {
            if is_under(p, s) {
                continue;
            }
            let ancestor = is_under(s, p) && n.kind == Kind::Dir;
            if !ancestor {
                run.violation(
                    "subtree-restore-created-something-outside",
                    format!("only_subtree {s:?} created {p:?} ({})", tree::describe(n)),
                    rp,
                );
                return;
            }
        }
    }
}

pub fn run(tier: Tier, replay: Option<Value>) -> i32 {
    let run = Run::new("C12", "exploration", tier, replay);
    run.par_cases(tier.pick(400, 30000), super::threads(), |c| one_case(&run, c));
    run.finish(
        "generated trees over names with multi-byte characters and siblings extending one another ('/a','/ab','/a.b','/a b','/é','/éa','/é.b','/日','/日本',...), depth <= 4; listing: S over EVERY entry of the tree plus non-existent paths (children, and names extended by 'é'/'0'): iter_entries(version, S) must equal the entries of the full listing that are S or lie under S by whole components, in order and unmodified; restoring: S over every directory: no error, everything under dest/S identical (bytes, mtime ns, mode, owner) to the same subtree of a full restore, and outside S nothing but the ancestor directories of S. Non-trivial = tree has a non-empty directory with a multi-byte name or a sibling extending another name.",
        &["full listing and full restore are the reference (their own correctness is C01/C11)"],
        None,
        &[("subtree_listings_compared", 200), ("subtree_restores_compared", 50), ("trees_with_nonempty_multibyte_dir", 5), ("trees_with_sibling_extending_a_name", 5)],
    )
}
