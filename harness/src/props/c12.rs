//! C12 — selecting a subtree returns exactly that subtree.

use serde_json::{Value, json};

use crate::cs::{self, Opts};
use crate::report::{Run, Tier, panic_site};
use crate::rng::Rng;
use crate::scratch::Scratch;
use crate::tree::{self, CmpOpts, Kind, Node, Snapshot, child_of, gen_content, is_under};

const NAMES12: &[&str] = &[
    "a", "ab", "a.b", "a b", "a-", "é", "éa", "é.b", "é b", "日", "日本", "ñ", "ña", "b", "a~",
    // names that need escaping in the JSON of an index hunk
    "a\"q", "a\\s", "a\nl", "\u{1}c",
];

fn gen_case_tree(rng: &mut Rng) -> Snapshot {
    let mut t = Snapshot::new();
    t.insert("/".into(), Node::dir());
    let mut dirs = vec!["/".to_string()];
    let target = 10 + rng.below(25) as usize;
    let mut tries = 0;
    while t.len() < target && tries < 400 {
        tries += 1;
        let d = rng.pick(&dirs).clone();
        let ap = child_of(&d, *rng.pick(NAMES12));
        if t.contains_key(&ap) {
            continue;
        }
        let depth = ap.matches('/').count();
        let roll = rng.below(10);
        let mut n = if roll < 4 && depth < 4 {
            dirs.push(ap.clone());
            Node::dir()
        } else if roll < 5 {
            Node::symlink("é/target")
        } else {
            let len = rng.below(40) as usize;
            Node::file(gen_content(rng, len))
        };
        n.mtime_s = 1_500_000_000 + rng.below(1_000_000) as i64;
        n.mtime_ns = rng.below(1_000_000_000) as u32;
        if n.kind != Kind::Symlink {
            n.mode = *rng.pick(&[0o755, 0o700, 0o644, 0o600, 0o750]);
        }
        t.insert(ap, n);
    }
    t
}

fn one_case(run: &Run, case: u64) {
    let mut rng = Rng::for_case(run.seed, case, 15);
    let spec = gen_case_tree(&mut rng);
    let sc = Scratch::new("c12");
    let src = sc.join("src");
    tree::sync_to_disk(None, &spec, &src).expect("materialise");
    let snap = tree::snapshot(&src).expect("snapshot");
    let arch = sc.join("arch");
    cs::create_archive(&arch);
    let o = Opts { hunk: *rng.pick(&[1usize, 3, 100_000]), block: 64, cap: 16 };
    let b = cs::backup(cs::local(&arch), &src, o, &[], None);
    let replay = json!({"case": case});
    run.eval();
    if !b.clean() {
        run.violation("backup-failed", b.describe(), replay);
        return;
    }
    let full = cs::list(cs::local(&arch), Some(0), "/", &[]);
    let Some(full) = full.value().cloned() else {
        run.violation("full-listing-failed", full.describe(), replay);
        return;
    };
    let full_paths: Vec<&str> = full.iter().map(|e| e.apath.as_str()).collect();
    {
        let mut a: Vec<&str> = full_paths.clone();
        a.sort();
        let b: Vec<&str> = snap.keys().map(|s| s.as_str()).collect();
        if a != b {
            run.violation("full-listing-differs-from-tree", format!("{a:?} vs {b:?}"), replay);
            return;
        }
    }
    let multibyte_dirs = snap.iter().filter(|(p, n)| n.kind == Kind::Dir && !p.is_ascii() && snap.keys().any(|q| q != *p && is_under(q, p))).count();
    if multibyte_dirs > 0 {
        run.count("trees_with_nonempty_multibyte_dir", 1);
    }
    let extending = snap.keys().any(|p| snap.keys().any(|q| q != p && q.starts_with(p.as_str()) && !is_under(q, p) && p != "/"));
    if extending {
        run.count("trees_with_sibling_extending_a_name", 1);
    }
    if multibyte_dirs > 0 || extending {
        run.nontrivial(tree::tree_sig(&snap));
    }
    run.sample(|| json!({"case": case, "paths": full_paths}));
    // listing: S over every entry and some non-existent paths
    let mut subtrees: Vec<String> = snap.keys().cloned().collect();
    for p in snap.keys().take(6).cloned().collect::<Vec<_>>() {
        subtrees.push(child_of(&p, "nonexistent"));
        if p != "/" {
            subtrees.push(format!("{p}é"));
            subtrees.push(format!("{p}0"));
        }
    }
    subtrees.push("/nonexistent".into());
    for s in &subtrees {
        let l = cs::list(cs::local(&arch), Some(0), s, &[]);
        run.eval();
        run.count("subtree_listings_compared", 1);
        if let Some(p) = &l.panic {
            run.violation(format!("listing-panic:{}", panic_site(p)), format!("subtree {s:?}: {p}"), json!({"case": case, "subtree": s}));
            return;
        }
        let want: Vec<&str> = full_paths.iter().copied().filter(|p| is_under(p, s)).collect();
        let got: Option<Vec<&str>> = l.value().map(|v| v.iter().map(|e| e.apath.as_str()).collect());
        if got.as_ref() != Some(&want) {
            let class = if !s.is_ascii() { "non-ascii-subtree" } else { "ascii-subtree" };
            run.violation(
                format!("subtree-listing-differs:{class}"),
                format!("subtree {s:?}: listed {got:?}, expected exactly {want:?}"),
                json!({"case": case, "subtree": s}),
            );
            return;
        }
        // the entries themselves are those of the full listing
        if let Some(v) = l.value() {
            for e in v {
                if full.iter().find(|f| f.apath == e.apath) != Some(e) {
                    run.violation("subtree-listing-entry-differs", format!("subtree {s:?}: {:?}", e.apath), json!({"case": case, "subtree": s}));
                    return;
                }
            }
        }
    }
    // the same for a version stitched from an interrupted backup: change the tree (entries
    // under several subtrees disappear, others appear), back up with small hunks, kill the backup
    // before one of its last writes, and list every S of the stitched version
    {
        let mut spec2 = spec.clone();
        let victims: Vec<String> = spec2.keys().filter(|k| k.as_str() != "/").cloned().collect();
        for _ in 0..(1 + victims.len() / 4) {
            let v = rng.pick(&victims).clone();
            let keys: Vec<String> = spec2.keys().filter(|k| is_under(k, &v)).cloned().collect();
            for k in keys {
                spec2.remove(&k);
            }
        }
        let dirs2: Vec<String> = spec2.iter().filter(|(_, n)| n.kind == Kind::Dir).map(|(p, _)| p.clone()).collect();
        for i in 0..3 {
            let d = rng.pick(&dirs2).clone();
            let ap = child_of(&d, *rng.pick(NAMES12));
            if !spec2.contains_key(&ap) {
                let mut n = Node::file(gen_content(&mut rng, 5 + i));
                n.mtime_s = 1_600_000_000 + i as i64;
                spec2.insert(ap, n);
            }
        }
        tree::sync_to_disk(Some(&spec), &spec2, &src).expect("sync");
        let o2 = Opts { hunk: *rng.pick(&[1usize, 2, 3]), block: 64, cap: 16 };
        let probe = sc.join("probe");
        crate::fmt06::copy_dir(&arch, &probe);
        let ic = crate::icept::Icept::new(&probe, crate::icept::Mode::Log, 0);
        let _ = cs::backup(ic.transport(1), &src, o2, &[], None);
        let writes = ic.log().iter().filter(|e| e.verb == crate::icept::V::Write).count();
        crate::scratch::rm(&probe);
        // kill before one of the last three writes (the tail or one of the last hunks/blocks)
        let nth = writes.saturating_sub(1 + rng.below(3) as usize);
        let arch2 = sc.join("arch2");
        crate::fmt06::copy_dir(&arch, &arch2);
        let ic = crate::icept::Icept::new(&arch2, crate::icept::Mode::CrashAtWrite { nth }, 0);
        let _ = cs::backup(ic.transport(1), &src, o2, &[], None);
        let raw = crate::fmt06::read_archive(&arch2, false);
        if raw.bands.get(&1).map(|b| b.head.is_some() && !b.complete() && !b.hunks.is_empty()).unwrap_or(false) {
            let full2 = cs::list(cs::local(&arch2), Some(1), "/", &[]);
            if let Some(full2) = full2.value() {
                run.count("stitched_versions_listed", 1);
                let full2_paths: Vec<&str> = full2.iter().map(|e| e.apath.as_str()).collect();
                let mut ss: Vec<String> = full2_paths.iter().map(|s| s.to_string()).collect();
                ss.extend(snap.keys().cloned());
                ss.sort();
                ss.dedup();
                for s in &ss {
                    let l = cs::list(cs::local(&arch2), Some(1), s, &[]);
                    run.eval();
                    run.count("stitched_subtree_listings_compared", 1);
                    let want: Vec<&str> = full2_paths.iter().copied().filter(|p| is_under(p, s)).collect();
                    let got: Option<Vec<&str>> = l.value().map(|v| v.iter().map(|e| e.apath.as_str()).collect());
                    if got.as_ref() != Some(&want) {
                        run.violation(
                            "subtree-listing-differs:stitched-version",
                            format!("interrupted version (killed before write #{nth}), subtree {s:?}: listed {got:?}, the full listing filtered gives {want:?}"),
                            json!({"case": case, "stitched": true, "subtree": s}),
                        );
                        return;
                    }
                }
            }
        }
        // put the source back as it was for the restore part
        tree::sync_to_disk(Some(&spec2), &spec, &src).expect("sync");
    }
    // restore: S over the directories
    let full_dest = sc.join("full");
    let r = cs::restore(cs::local(&arch), Some(0), &full_dest, None, &[], false);
    if !r.clean() {
        run.violation("full-restore-failed", r.describe(), replay);
        return;
    }
    let fsnap = tree::snapshot(&full_dest).expect("snapshot");
    let dirs: Vec<String> = snap.iter().filter(|(_, n)| n.kind == Kind::Dir).map(|(p, _)| p.clone()).collect();
    for s in &dirs {
        let dest = sc.fresh("sub");
        let r = cs::restore(cs::local(&arch), Some(0), &dest, Some(s), &[], false);
        run.eval();
        run.count("subtree_restores_compared", 1);
        let rp = json!({"case": case, "restore_subtree": s});
        if let Some(p) = &r.panic {
            run.violation(format!("restore-panic:{}", panic_site(p)), format!("only_subtree {s:?}: {p}"), rp);
            return;
        }
        if !r.clean() {
            run.violation("subtree-restore-reported-errors", format!("only_subtree {s:?}: {}", r.describe()), rp);
            return;
        }
        let rsnap = tree::snapshot(&dest).expect("snapshot");
        crate::scratch::rm(&dest);
        let expected: Snapshot = fsnap.iter().filter(|(p, _)| is_under(p, s)).map(|(p, n)| (p.clone(), n.clone())).collect();
        let actual_under: Snapshot = rsnap.iter().filter(|(p, _)| is_under(p, s)).map(|(p, n)| (p.clone(), n.clone())).collect();
        let d = tree::diff_snapshots(&expected, &actual_under, &CmpOpts::default());
        if !d.is_empty() {
            let class = if !s.is_ascii() { "non-ascii-subtree" } else { "ascii-subtree" };
            run.violation(
                format!("subtree-restore-differs-from-full-restore:{class}"),
                format!("only_subtree {s:?}: {}", d.iter().take(4).map(|(_, m)| m.as_str()).collect::<Vec<_>>().join("; ")),
                rp,
            );
            return;
        }
        for (p, n) in &rsnap {
            if is_under(p, s) {
                continue;
            }
            let ancestor = is_under(s, p) && n.kind == Kind::Dir;
            if !ancestor {
                run.violation(
                    "subtree-restore-created-something-outside",
                    format!("only_subtree {s:?} created {p:?} ({})", tree::describe(n)),
                    rp,
                );
                return;
            }
        }
    }
}

/// Scale: subtree selections in a version of more than 10 000 one-entry hunks, on both sides of
/// the index-subdirectory boundary.
fn many_hunks(run: &Run) {
    // once with one entry per hunk (10 000+ hunks, two index subdirectories), once with the
    // default hunk size (one hunk of 10 000+ entries)
    for o in [crate::history::MANY_HUNKS_OPTS, Opts { hunk: 100_000, ..crate::history::MANY_HUNKS_OPTS }] {
    let label = format!("10 040-file tree, {}", o.label());
    let mut w = crate::history::many_hunks_world("c12big", run.seed);
    // a directory whose entries are recorded beyond hunk 10 000
    let mut spec = w.spec.clone();
    spec.insert("/zdir".into(), Node::dir());
    for n in ["a", "é", "z"] {
        spec.insert(format!("/zdir/{n}"), Node::file(gen_content(&mut Rng::for_case(run.seed, 1, 1200), 9)));
    }
    w.set_spec(spec);
    run.eval();
    if !w.backup(o).backup.unwrap().clean() {
        run.inconclusive("many-hunks backup not clean");
        return;
    }
    let full = cs::list(cs::local(&w.arch), Some(0), "/", &[]);
    let Some(full) = full.value() else {
        run.violation("full-listing-failed", full.describe(), json!({"many_hunks": true}));
        return;
    };
    let full_paths: Vec<&str> = full.iter().map(|e| e.apath.as_str()).collect();
    if full_paths.len() != w.snap.len() {
        run.violation("full-listing-differs-from-tree", format!("[{label}] listing has {} entries, the tree {}", full_paths.len(), w.snap.len()), json!({"many_hunks": true}));
        return;
    }
    for s in ["/f00005", "/f09999", "/f10000", "/f10020", "/zdir", "/zdir/é", "/nonexistent"] {
        let l = cs::list(cs::local(&w.arch), Some(0), s, &[]);
        let want: Vec<&str> = full_paths.iter().copied().filter(|p| is_under(p, s)).collect();
        let got: Option<Vec<&str>> = l.value().map(|v| v.iter().map(|e| e.apath.as_str()).collect());
        run.count("subtree_listings_compared", 1);
        if got.as_ref() != Some(&want) {
            run.violation("subtree-listing-differs-from-filtered-full-listing", format!("[{label}] subtree {s}: listed {got:?}, the full listing filtered gives {want:?}"), json!({"many_hunks": true}));
            return;
        }
    }
    let dest = w.sc.fresh("sub");
    let r = cs::restore(cs::local(&w.arch), Some(0), &dest, Some("/zdir"), &[], false);
    let got = tree::snapshot(&dest).map(|s| s.keys().cloned().collect::<Vec<_>>()).unwrap_or_default();
    run.count("subtree_restores_compared", 1);
    if !r.clean() || got != vec!["/".to_string(), "/zdir".into(), "/zdir/a".into(), "/zdir/z".into(), "/zdir/é".into()] {
        run.violation("subtree-restore-differs-from-full-restore", format!("[{label}] restore of /zdir: {} created {got:?}", r.describe()), json!({"many_hunks": true}));
        return;
    }
    run.count("subtree_selections_in_a_version_with_more_than_10000_hunks", 8);
    }
}

pub fn run(tier: Tier, replay: Option<Value>) -> i32 {
    let run = Run::new("C12", "exploration", tier, replay.clone());
    if replay.as_ref().and_then(|r| r.get("many_hunks")).is_some() {
        many_hunks(&run);
        return run.finish("replay", &[], None, &[]);
    }
    if replay.is_none() {
        super::alongside(&run, "the many-hunks selections", || many_hunks(&run), || run.par_cases(tier.pick(400, 30000), super::threads(), |c| one_case(&run, c)));
    } else {
        run.par_cases(tier.pick(400, 30000), super::threads(), |c| one_case(&run, c));
    }
    run.finish(
        "generated trees over names with multi-byte characters and siblings extending one another ('/a','/ab','/a.b','/a b','/é','/éa','/é.b','/日','/日本',...), depth <= 4; listing: S over EVERY entry of the tree plus non-existent paths (children, and names extended by 'é'/'0'): iter_entries(version, S) must equal the entries of the full listing that are S or lie under S by whole components, in order and unmodified — also for a version stitched from a second backup that was killed before one of its last writes after entries under several subtrees were removed and added; restoring: S over every directory: no error, everything under dest/S identical (bytes, mtime ns, mode, owner) to the same subtree of a full restore, and outside S nothing but the ancestor directories of S. Also subtree listings and a subtree restore in versions of 10 040 files, one with one entry per hunk (paths on both sides of the index-subdirectory boundary) and one with all entries in a single hunk. Non-trivial = tree has a non-empty directory with a multi-byte name or a sibling extending another name.",
        &["full listing and full restore are the reference (their own correctness is C01/C11)"],
        None,
        &[("subtree_listings_compared", 200), ("stitched_subtree_listings_compared", 100), ("subtree_restores_compared", 50), ("trees_with_nonempty_multibyte_dir", 5), ("trees_with_sibling_extending_a_name", 5), ("subtree_selections_in_a_version_with_more_than_10000_hunks", 16)],
    )
}
