//! C02 — every completed version keeps restoring to its own snapshot, across histories.

use serde_json::{Value, json};

use crate::fmt06::{self};
use crate::history::{StepKind, StepReport, World, random_opts};
use crate::oracle::restore_and_compare;
use crate::report::{Run, Tier, panic_site};
use crate::rng::{Rng, fnv};
use crate::tree::{CmpOpts, GenParams};

pub fn headless_bands(raw: &fmt06::Raw) -> Vec<u32> {
    raw.bands
        .values()
        .filter(|b| b.head_raw.is_none())
        .map(|b| b.id)
        .collect()
}

/// Judge a fault-free backup step. Returns false if a violation was recorded.
pub fn judge_backup(run: &Run, w: &World, rep: &StepReport, replay: &Value) -> bool {
    let out = rep.backup.as_ref().unwrap();
    if let Some(p) = &out.panic {
        run.violation(format!("backup-panic:{}", panic_site(p)), format!("{}: {p}", rep.desc), replay.clone());
        return false;
    }
    if !out.ok() {
        run.violation("backup-err", format!("fault-free {} failed: {}", rep.desc, out.describe()), replay.clone());
        return false;
    }
    let stats = out.value().unwrap();
    if stats.errors != 0 {
        run.violation("backup-counted-errors", format!("{}: stats.errors={}", rep.desc, stats.errors), replay.clone());
        return false;
    }
    let raw = w.raw(false);
    if !out.errors.is_empty() && headless_bands(&raw).is_empty() {
        run.violation("backup-reported-errors", format!("{}: {}", rep.desc, out.describe()), replay.clone());
        return false;
    }
    match rep.new_band {
        Some(b) if raw.bands[&b].complete() => {
            // new id above every id that existed before
            let max_before = rep
                .before
                .keys()
                .filter_map(|k| k.strip_prefix('b').and_then(|r| r.split('/').next()).and_then(|d| d.parse::<u32>().ok()))
                .max();
            if let Some(m) = max_before {
                if b <= m {
                    run.violation("band-id-not-above-existing", format!("{}: new band {b}, existing max {m}", rep.desc), replay.clone());
                    return false;
                }
            }
            true
        }
        _ => {
            run.violation("backup-ok-without-complete-band", format!("{}: returned Ok but no new complete band", rep.desc), replay.clone());
            false
        }
    }
}

/// Every surviving completed version restores to its own snapshot, by id and (the newest) via
/// LatestClosed. Returns (restores done, number of complete versions), None after a violation.
fn check_versions(run: &Run, w: &World, when: &str, replay: &Value) -> Option<(u64, usize)> {
        // every surviving completed version restores to its own snapshot
        let complete = w.complete_bands();
        let mut restores = 0u64;
        for b in &complete {
            let Some(expected) = w.sources.get(b) else {
                run.inconclusive(format!("{when}: complete band {b} unknown to the model"));
                return None;
            };
            restores += 1;
            if let Err(m) = restore_and_compare(&w.arch, Some(*b), expected, &w.sc, &CmpOpts::default()) {
                run.violation(
                    format!("by-id:{}", m.class),
                    format!("{when} version b{b:04}: {}", m.detail),
                    replay.clone(),
                );
                return None;
            }
        }
        if let Some(latest) = complete.iter().max() {
            restores += 1;
            if let Err(m) = restore_and_compare(&w.arch, None, &w.sources[latest], &w.sc, &CmpOpts::default()) {
                let headless = !headless_bands(&w.raw(false)).is_empty();
                run.violation(
                    format!("latest-closed{}:{}", if headless { "-with-headless-band-dir" } else { "" }, m.class),
                    format!("{when} latest complete is b{latest:04}: {}", m.detail),
                    replay.clone(),
                );
                return None;
            }
        }
            Some((restores, complete.len()))
}

fn one_history(run: &Run, case: u64) {
    let mut rng = Rng::for_case(run.seed, case, 2);
    let block = *rng.pick(&[7usize, 64, 1000]);
    let cap = *rng.pick(&[0u64, 10, 64]);
    let mut p = GenParams::small(block, cap);
    p.target_entries = 5 + rng.below(10) as usize;
    p.max_plain_size = 8192;
    p.band_numbers_to_99998 = true;
    let mut w = World::new("c02", &mut rng, p, run.seed ^ case);
    if case % 25 == 3 {
        // scale: hundreds of entries and blocks, long names, deep nesting
        w.widen(&mut rng);
        run.count("histories_on_wide_and_deep_trees", 1);
    }
    let n_steps = 6 + rng.below(run.tier.pick(14, 20)) as usize;
    let mut descs: Vec<String> = Vec::new();
    let mut max_complete = 0usize;
    let mut kinds = std::collections::BTreeSet::new();
    let mut restores = 0u64;
    run.eval();
    for step in 0..n_steps {
        // now and then the caller stops a backup (its change callback fails part-way)
        let rep = if !w.sources.is_empty() && rng.chance(1, 12) {
            let after = 1 + rng.below(w.snap.len().max(2) as u64 - 1) as usize;
            let r = w.backup_stopped_by_caller(random_opts(&mut rng), after);
            run.count("backups_stopped_by_their_caller", 1);
            if r.backup.as_ref().map(|b| b.ok()).unwrap_or(false) {
                // the callback was never reached that often (unchanged entries are not announced)
                w.sources.insert(r.new_band.unwrap_or(0), w.snap.clone());
            } else if let Some(b) = r.new_band {
                if w.complete_bands().contains(&b) {
                    run.violation(
                        "backup-stopped-by-caller-left-a-version-marked-complete",
                        format!("{}: returned {} and b{b:04} has a tail", r.desc, r.backup.as_ref().unwrap().describe()),
                        json!({"case": case, "step": step, "history": descs}),
                    );
                    return;
                }
            }
            r
        } else {
            w.random_step(&mut rng)
        };
        descs.push(rep.desc.clone());
        kinds.insert(format!("{:?}", rep.kind));
        run.count(&format!("steps_{:?}", rep.kind), 1);
        let replay = json!({"case": case, "step": step, "history": descs});
        match rep.kind {
            StepKind::Backup => {
                if !judge_backup(run, &w, &rep, &replay) {
                    return;
                }
            }
            StepKind::Interrupted => {
                let (k, n, _) = rep.crash.unwrap();
                run.count("interrupted_backups", 1);
                if k < n {
                    if rep.new_band.is_some() {
                        run.count("interrupted_with_header", 1);
                    }
                }
                // after the freeze the process is dead: only a panic before it counts
                if let Some(p) = rep.backup.as_ref().and_then(|o| o.panic.clone()) {
                    if !rep.frozen {
                        run.violation(format!("interrupted-backup-panic:{}", panic_site(&p)), format!("{}: {p}", rep.desc), replay.clone());
                        return;
                    }
                }
            }
            StepKind::Delete | StepKind::Gc => {
                let out = rep.delete.as_ref().unwrap();
                if let Some(p) = &out.panic {
                    run.violation(format!("delete-panic:{}", panic_site(p)), format!("{}: {p}", rep.desc), replay.clone());
                    return;
                }
                let after = fmt06::dir_bytes(&w.arch);
                if rep.newest_incomplete_before {
                    run.count("deletes_refused_incomplete_newest", 1);
                    if out.ok() {
                        run.violation("delete-not-refused-with-incomplete-newest", rep.desc.clone(), replay.clone());
                        return;
                    }
                    if after != rep.before {
                        run.violation("refused-delete-changed-archive", rep.desc.clone(), replay.clone());
                        return;
                    }
                } else if rep.dry_run {
                    run.count("dry_runs", 1);
                    if after != rep.before {
                        run.violation("dry-run-changed-archive", rep.desc.clone(), replay.clone());
                        return;
                    }
                } else if !out.ok() {
                    // deleting a band id that does not exist is an error; anything else is not expected
                    let missing = rep.delete_ids.iter().any(|id| !rep.before.contains_key(&fmt06::band_dirname(*id)));
                    // a head-less band directory (left by a kill before BANDHEAD was written) makes
                    // delete/gc refuse; refusing is safe and the statement does not forbid it
                    let headless = !headless_bands(&w.raw(false)).is_empty();
                    run.count("deletes_failed", 1);
                    if !missing && !headless {
                        run.violation("delete-err", format!("{}: {}", rep.desc, out.describe()), replay.clone());
                        return;
                    }
                } else {
                    run.count("deletes_done", 1);
                }
            }
            StepKind::Mutate => {}
        }
        match check_versions(run, &w, &format!("after step {step} ({})", rep.desc), &replay) {
            Some((n, complete)) => {
                restores += n;
                max_complete = max_complete.max(complete);
            }
            None => return,
        }
    }
    run.count("restores_compared", restores);
    run.count("histories_completed", 1);
    if max_complete >= 2 && kinds.len() >= 3 {
        run.nontrivial(fnv(descs.join("|").as_bytes()));
    }
    run.sample(|| json!({"case": case, "history": descs}));
}

/// Scale: a history on a tree of 10 040 files with one entry per index hunk, so that the
/// versions have hunks in two index subdirectories.
fn many_hunks(run: &Run) {
    let mut w = crate::history::many_hunks_world("c02big", run.seed);
    let o = crate::history::MANY_HUNKS_OPTS;
    let mut descs: Vec<String> = Vec::new();
    run.eval();
    for what in ["backup", "change+backup", "gc", "delete-oldest"] {
        let rep = match what {
            "backup" => w.backup(o),
            "change+backup" => {
                let mut spec = w.spec.clone();
                for i in [3u32, 4_999, 9_999, 10_000, 10_039] {
                    let mut n = crate::tree::Node::file(format!("changed {i}").into_bytes());
                    n.mtime_s = 1_700_000_000 + i as i64;
                    spec.insert(format!("/f{i:05}"), n);
                }
                spec.remove("/f00007");
                spec.remove("/f10001");
                spec.insert("/zlast".into(), crate::tree::Node::file(b"added after everything".to_vec()));
                w.set_spec(spec);
                w.backup(o)
            }
            "gc" => w.delete(&[], false),
            _ => {
                let oldest = *w.sources.keys().next().unwrap();
                w.delete(&[oldest], false)
            }
        };
        descs.push(format!("[10 040-file tree, 1 entry per hunk] {}", rep.desc));
        let replay = json!({"many_hunks": true, "history": descs});
        let ok = match rep.kind {
            StepKind::Backup => judge_backup(run, &w, &rep, &replay),
            _ => {
                let ok = rep.delete.as_ref().map(|d| d.ok()).unwrap_or(false);
                if !ok {
                    run.violation("delete-err", format!("{}: {}", descs.last().unwrap(), rep.delete.as_ref().unwrap().describe()), replay.clone());
                }
                ok
            }
        };
        if !ok {
            return;
        }
        match check_versions(run, &w, &format!("after {}", descs.last().unwrap()), &replay) {
            Some((n, _)) => {
                run.count("restores_compared", n);
                run.count("restores_of_versions_with_more_than_10000_hunks", n);
            }
            None => return,
        }
    }
}

pub fn run(tier: Tier, replay: Option<Value>) -> i32 {
    let run = Run::new("C02", "exploration", tier, replay.clone());
    let n = tier.pick(200, 8000);
    if replay.as_ref().and_then(|r| r.get("many_hunks")).is_some() {
        super::alongside(&run, "the many-hunks history", || many_hunks(&run), || ());
        return run.finish("replay", &[], None, &[]);
    } else if replay.is_some() {
        run.par_cases(n, super::threads(), |case| one_history(&run, case));
    } else {
        super::alongside(&run, "the many-hunks history", || many_hunks(&run), || run.par_cases(n, super::threads(), |case| one_history(&run, case)));
    }
    run.finish(
        "one history (backup, change, backup, gc, delete oldest) on a tree of 10 040 files with one entry per index hunk; then random histories (6-25 steps) over {1-4 tree mutations (add/modify/touch/chmod/remove/rename/file<->dir/symlinks/resize across the small-file cap/content reappearing from removed files) with strictly increasing logical-clock mtimes; backup with random (hunk, block, cap); backup killed before a uniformly chosen storage operation of its measured trace; backup stopped by its caller (the change callback fails at a random entry: the version must not count as complete); delete of a random subset (incl. dry run); gc}. After every step every version that has a tail and was not deleted is restored by id and via LatestClosed and compared with the snapshot of the source taken when its backup ran; refused and dry-run deletes must leave the archive byte-identical. Non-trivial = history reached >= 2 complete versions and >= 3 step kinds; distinct by step descriptions.",
        &["logical clock guarantees changed files have a new mtime (precondition in the statement)", "stop-the-world crash simulated by refusing every storage operation from operation k on"],
        None,
        &[("restores_compared", 50), ("interrupted_backups", 2), ("deletes_done", 2), ("histories_completed", 4)],
    )
}
