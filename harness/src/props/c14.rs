//! C14 — work already stored is never stored again.

use std::collections::{BTreeMap, BTreeSet};

use serde_json::{Value, json};

use crate::cs::{self, Opts};
use crate::fmt06::{self, Raw};
use crate::history::{StepKind, World, random_opts};
use crate::icept::{Ev, FState, Icept, Mode, V};
use crate::props::c03::path_class;
use crate::report::{Run, Tier, panic_site};
use crate::rng::{Rng, fnv};
use crate::scenario;
use crate::tree::{self, GenParams};

fn block_writes(events: &[Ev]) -> Vec<&Ev> {
    events.iter().filter(|e| e.verb == V::Write && path_class(&e.path) == "block").collect()
}

fn addrs_by_path(raw: &Raw, band: u32) -> BTreeMap<String, Vec<(String, u64, u64)>> {
    raw.bands
        .get(&band)
        .map(|b| {
            b.own_entries()
                .iter()
                .filter(|e| e.kind == "File")
                .map(|e| (e.apath.clone(), e.addrs.iter().map(|a| (a.hash.clone(), a.start, a.len)).collect()))
                .collect()
        })
        .unwrap_or_default()
}

/// Clauses 1 and 2 on histories.
fn one_history(run: &Run, case: u64) {
    let mut rng = Rng::for_case(run.seed, case, 21);
    let block = *rng.pick(&[7usize, 64, 1000]);
    let cap = *rng.pick(&[0u64, 10, 64]);
    let mut p = GenParams::small(block, cap);
    p.target_entries = 5 + rng.below(10) as usize;
    p.max_plain_size = 4096;
    // every third history has files dated far from the epoch (pre-1970, beyond 2262, year 9999):
    // 'unchanged' is decided by comparing recorded and live mtimes
    p.hostile_mtimes = case % 3 == 1;
    let mut w = World::new("c14", &mut rng, p, run.seed ^ case);
    if case % 25 == 3 {
        // scale: hundreds of entries and blocks, long names, deep nesting
        w.widen(&mut rng);
        run.count("histories_on_wide_and_deep_trees", 1);
    }
    let n_steps = 6 + rng.below(run.tier.pick(10, 16)) as usize;
    let mut descs = Vec::new();
    run.eval();
    let mut unchanged_checks = 0;
    for step in 0..n_steps {
        // now and then: back up twice in a row without touching the tree
        let twice = !w.sources.is_empty() && rng.chance(1, 4);
        let rep = if twice { w.backup(random_opts(&mut rng)) } else { w.random_step(&mut rng) };
        descs.push(rep.desc.clone());
        let replay = json!({"case": case, "step": step, "history": descs});
        if matches!(rep.kind, StepKind::Backup | StepKind::Interrupted) {
            // clause 2: a block write is only ever issued for a name that is absent (or a
            // zero-length leftover); at most one successful write per name
            let mut seen = BTreeSet::new();
            for e in block_writes(&rep.events) {
                run.count("block_writes_observed", 1);
                let pre_nonempty = matches!(e.pre, Some(FState::File { len, .. }) if len > 0);
                if pre_nonempty {
                    run.violation(
                        "block-write-issued-for-existing-block",
                        format!("{}: {} (pre-state {:?})", rep.desc, e.brief(), e.pre),
                        replay.clone(),
                    );
                    return;
                }
                if e.ok() && !seen.insert(e.path.clone()) {
                    run.violation("block-written-twice-in-one-backup", format!("{}: {}", rep.desc, e.brief()), replay.clone());
                    return;
                }
            }
        }
        if twice && rep.backup.as_ref().map(|b| b.ok()).unwrap_or(false) {
            let first = rep.new_band.unwrap();
            let o2 = if rng.chance(1, 2) { rep.backup_opts.unwrap() } else { random_opts(&mut rng) };
            // every other time the second backup does not record owners: the tree is as
            // unchanged as before, only the recorded metadata differs
            let no_owner = rng.chance(1, 2);
            // every third time some other program has left files of its own in the archive (a
            // file manager's .DS_Store, a sync tool's temporary): beside the band directories,
            // in the previous band, in its index directory and in its first hunk subdirectory.
            // conserve lists only what it names itself; such files are not the archive's
            let mut foreign: Vec<std::path::PathBuf> = Vec::new();
            if rng.chance(1, 3) {
                let bd = w.arch.join(crate::fmt06::band_dirname(first));
                for d in [w.arch.clone(), bd.clone(), bd.join("i"), bd.join("i").join("00000")] {
                    if d.is_dir() {
                        for name in [".DS_Store", ".nfs000000000badc0de"] {
                            let f = d.join(name);
                            if std::fs::write(&f, b"\0\0\0\x01Bud1 not conserve's").is_ok() {
                                foreign.push(f);
                            }
                        }
                    }
                }
                run.count("unchanged_tree_backups_with_foreign_files_in_the_archive", 1);
            }
            let rep2 = if no_owner { cs::without_owner(|| w.backup(o2)) } else { w.backup(o2) };
            for f in &foreign {
                let _ = std::fs::remove_file(f);
            }
            if no_owner {
                run.count("unchanged_tree_backups_with_the_owner_option_switched_off", 1);
            }
            descs.push(format!("{} (tree unchanged{})", rep2.desc, if no_owner { ", owners not recorded" } else { "" }));
            let replay = json!({"case": case, "step": step, "history": descs});
            let Some(out) = rep2.backup.as_ref().filter(|b| b.ok()) else {
                run.violation("second-backup-failed", rep2.backup.map(|b| b.describe()).unwrap_or_default(), replay);
                return;
            };
            let stats = out.value().unwrap();
            let writes = block_writes(&rep2.events);
            run.count("unchanged_tree_backups", 1);
            unchanged_checks += 1;
            if !writes.is_empty() || stats.written_blocks != 0 {
                run.violation(
                    "unchanged-tree-wrote-blocks",
                    format!("{} after {}: {} block writes issued, stats.written_blocks={}", rep2.desc, rep.desc, writes.len(), stats.written_blocks),
                    replay,
                );
                return;
            }
            let raw = w.raw(false);
            let second = rep2.new_band.unwrap();
            let (a, b) = (addrs_by_path(&raw, first), addrs_by_path(&raw, second));
            run.count("unchanged_entries_compared", a.len() as u64);
            if a != b {
                let p = a.keys().find(|k| a.get(*k) != b.get(*k)).cloned().unwrap_or_default();
                run.violation(
                    "unchanged-tree-recorded-different-addresses",
                    format!("{p}: b{first:04} {:?} vs b{second:04} {:?}", a.get(&p), b.get(&p)),
                    replay,
                );
                return;
            }
        }
    }
    if unchanged_checks > 0 {
        run.nontrivial(fnv(descs.join("|").as_bytes()));
    }
    run.sample(|| json!({"case": case, "history": descs}));
}

/// Clause 3: a backup resumed after an interruption at any point.
fn one_scenario(run: &Run, case: u64) {
    let sc = scenario::build(run.seed, case, "c14");
    let n = sc.trace.len();
    run.count("resume_scenarios", 1);
    let only = run.replay.as_ref().and_then(|r| r.get("k")).and_then(|k| k.as_u64()).map(|k| k as usize);
    for k in 0..=n {
        if only.is_some() && only != Some(k) {
            continue;
        }
        if run.out_of_time() {
            run.count("crash_points_skipped_by_time_budget", 1);
            continue;
        }
        let fr = sc.run_with(Mode::CrashAt { k, torn: false }, 0);
        run.eval();
        run.count("resume_crash_points", 1);
        let replay = json!({"resume": true, "case": case, "k": k, "scenario": sc.desc, "at": fr.at.as_ref().map(|e| e.brief())});
        let raw1 = fmt06::read_archive(&fr.arch, false);
        let new_id = sc.new_band_id();
        let left: BTreeSet<String> = raw1.blocks.iter().filter(|(_, b)| b.comp_len > 0).map(|(n, _)| n.clone()).collect();
        let r1_entries = addrs_by_path(&raw1, new_id);
        // R2: the resumed run, logged
        let ic = Icept::new(&fr.arch, Mode::Log, 0);
        let out = cs::backup(ic.transport(1), sc.src(), sc.opts, &[], None);
        if let Some(p) = &out.panic {
            run.violation(format!("resumed-backup-panic:{}", panic_site(p)), p.clone(), replay);
            crate::scratch::rm(&fr.arch);
            continue;
        }
        let Some(stats) = out.value() else {
            run.violation("resumed-backup-failed", out.describe(), replay);
            crate::scratch::rm(&fr.arch);
            continue;
        };
        let log = ic.log();
        let rewritten: Vec<String> = block_writes(&log)
            .iter()
            .filter(|e| left.contains(e.path.rsplit('/').next().unwrap()))
            .map(|e| e.brief())
            .collect();
        run.count("blocks_left_by_interrupted_runs", left.len() as u64);
        if !r1_entries.is_empty() {
            run.count("crash_points_with_recorded_file_entries", 1);
            run.nontrivial(fnv(format!("{}|{k}", sc.desc).as_bytes()));
        }
        if !rewritten.is_empty() {
            run.violation(
                "resumed-backup-rewrote-stored-block",
                format!("{} killed before op {k}, resumed: wrote again {:?}", sc.desc, &rewritten[..rewritten.len().min(3)]),
                replay,
            );
            crate::scratch::rm(&fr.arch);
            continue;
        }
        let raw2 = fmt06::read_archive(&fr.arch, false);
        let r2_id = *raw2.bands.keys().max().unwrap();
        let r2_entries = addrs_by_path(&raw2, r2_id);
        let mut bad = None;
        for (p, a) in &r1_entries {
            run.count("recorded_entries_compared", 1);
            if r2_entries.get(p) != Some(a) {
                bad = Some(format!("{p}: interrupted run recorded {a:?}, resumed run {:?}", r2_entries.get(p)));
                break;
            }
        }
        if let Some(b) = bad {
            run.violation("resumed-backup-did-not-reuse-recorded-entry", format!("{} killed before op {k}: {b}", sc.desc), replay);
        } else if stats.unmodified_files < r1_entries.len() {
            run.violation(
                "resumed-backup-unmodified-count-too-low",
                format!("{} killed before op {k}: {} file entries were recorded, resumed run reports {} unmodified", sc.desc, r1_entries.len(), stats.unmodified_files),
                replay,
            );
        }
        crate::scratch::rm(&fr.arch);
    }
    run.sample(|| json!({"resume_case": case, "scenario": sc.desc, "trace_len": n}));
}

/// Clause 2 when a read or listing operation fails: even then no write may be issued for a
/// block that is present (the backup has to stop, or to know what is there).
fn one_read_fault_scenario(run: &Run, case: u64) {
    let sc = scenario::build(run.seed, case + 1000, "c14f");
    run.count("read_fault_scenarios", 1);
    let only = run.replay.as_ref().and_then(|r| r.get("k")).and_then(|k| k.as_u64()).map(|k| k as usize);
    for e in sc.trace.iter().filter(|e| matches!(e.verb, V::Read | V::ListDir | V::Metadata)) {
        let k = e.idx;
        if only.is_some() && only != Some(k) {
            continue;
        }
        for kind in crate::icept::KINDS {
            if run.out_of_time() {
                run.count("crash_points_skipped_by_time_budget", 1);
                continue;
            }
            let fr = sc.run_with(Mode::FailAt { k, kind }, 0);
            run.eval();
            run.count("read_fault_runs", 1);
            for w in block_writes(&fr.log) {
                run.count("block_writes_observed_under_read_faults", 1);
                if matches!(w.pre, Some(FState::File { len, .. }) if len > 0) {
                    run.violation(
                        format!("block-write-issued-for-existing-block-after-{}-fault:{}", e.verb.name(), path_class(&e.path)),
                        format!("{}: {} failed with {}; then {} was issued although the file exists ({:?})", sc.desc, e.brief(), crate::icept::kind_name(kind), w.brief(), w.pre),
                        json!({"read_fault": true, "case": case, "k": k, "kind": crate::icept::kind_name(kind)}),
                    );
                    break;
                }
            }
            crate::scratch::rm(&fr.arch);
        }
    }
}

/// Clause 1 across an interruption: the tree has not changed since the last complete version, a
/// backup of it is killed at every point, and the next backup must still write nothing and
/// record the addresses of the last complete version.
fn one_unchanged_scenario(run: &Run, case: u64) {
    let mut rng = Rng::for_case(run.seed, case, 23);
    let opts = cs::Opts { hunk: *rng.pick(&[2usize, 3, 100_000]), block: *rng.pick(&[16usize, 64]), cap: *rng.pick(&[10u64, 40]) };
    let mut p = GenParams::small(opts.block, opts.cap);
    p.target_entries = 8 + rng.below(6) as usize;
    p.max_plain_size = 300;
    p.hostile_mtimes = false;
    p.hostile_modes = false;
    let mut w = World::new("c14u", &mut rng, p, run.seed ^ (case << 5));
    let r = w.backup(opts);
    assert!(r.backup.as_ref().unwrap().ok());
    w.mutate(&mut rng, 3);
    let r = w.backup(opts);
    assert!(r.backup.as_ref().unwrap().ok());
    let last = r.new_band.unwrap();
    let want = addrs_by_path(&w.raw(false), last);
    let trace = w.measure_trace(opts);
    run.count("unchanged_resume_scenarios", 1);
    let only = run.replay.as_ref().and_then(|r| r.get("k")).and_then(|k| k.as_u64()).map(|k| k as usize);
    for k in 0..=trace.len() {
        if only.is_some() && only != Some(k) {
            continue;
        }
        if run.out_of_time() {
            run.count("crash_points_skipped_by_time_budget", 1);
            continue;
        }
        let arch = w.sc.fresh("u");
        fmt06::copy_dir(&w.arch, &arch);
        let ic = Icept::new(&arch, Mode::CrashAt { k, torn: false }, 0);
        let _ = cs::backup(ic.transport(1), &w.src, opts, &[], None);
        let at = ic.frozen_at().map(|e| e.brief());
        let ic2 = Icept::new(&arch, Mode::Log, 0);
        let out = cs::backup(ic2.transport(1), &w.src, opts, &[], None);
        run.eval();
        run.count("unchanged_resume_crash_points", 1);
        run.nontrivial(fnv(format!("u{case}|{k}").as_bytes()));
        let replay = json!({"unchanged_resume": true, "case": case, "k": k, "at": at});
        if let Some(stats) = out.value() {
            let writes = block_writes(&ic2.log()).len();
            let raw = fmt06::read_archive(&arch, false);
            let newest = *raw.bands.keys().max().unwrap();
            let got = addrs_by_path(&raw, newest);
            if writes != 0 || stats.written_blocks != 0 {
                run.violation(
                    "unchanged-tree-wrote-blocks-after-interruption",
                    format!("tree unchanged since b{last:04}; a backup of it was killed before op {k} ({at:?}); the next backup issued {writes} block writes (written_blocks={}, unmodified_files={})", stats.written_blocks, stats.unmodified_files),
                    replay,
                );
            } else if got != want {
                run.violation(
                    "unchanged-tree-recorded-different-addresses-after-interruption",
                    format!("killed before op {k} ({at:?})"),
                    replay,
                );
            }
        } else {
            run.violation("backup-after-interruption-failed", out.describe(), replay);
        }
        crate::scratch::rm(&arch);
    }
}

/// Scale: a tree of 10 040 files with one entry per hunk (two index subdirectories) backed up
/// twice: the second run writes no block and records the same addresses.
fn many_hunks(run: &Run) {
    let mut w = crate::history::many_hunks_world("c14big", run.seed);
    let o = crate::history::MANY_HUNKS_OPTS;
    run.eval();
    let replay = json!({"many_hunks": true});
    let r1 = w.backup(o);
    let r2 = w.backup(o);
    if !r1.backup.as_ref().unwrap().clean() || !r2.backup.as_ref().unwrap().clean() {
        run.violation("many-hunks-backup-not-clean", format!("{} / {}", r1.backup.unwrap().describe(), r2.backup.unwrap().describe()), replay);
        return;
    }
    let writes = block_writes(&r2.events);
    if !writes.is_empty() {
        run.violation("unchanged-tree-wrote-blocks", format!("[10 040-file tree, 1 entry per hunk] second backup issued {} block writes, first {}", writes.len(), writes[0].brief()), replay);
        return;
    }
    let raw = w.raw(false);
    let (a, b) = (addrs_by_path(&raw, 0), addrs_by_path(&raw, 1));
    run.count("unchanged_entries_compared", a.len() as u64);
    if a != b || a.len() < 10_000 {
        let p = a.keys().find(|k| a.get(*k) != b.get(*k)).cloned().unwrap_or_default();
        run.violation("unchanged-tree-recorded-different-addresses", format!("[10 040-file tree] {} vs {} file entries; {p}: {:?} vs {:?}", a.len(), b.len(), a.get(&p), b.get(&p)), replay);
        return;
    }
    run.count("unchanged_tree_backups", 1);
    run.count("unchanged_backups_of_versions_with_more_than_10000_hunks", 1);
}

/// Scale: one index hunk of tens of megabytes (a 16 MiB file stored in 64-byte blocks has
/// 262 144 addresses), in a tree that grows: a+b, then a+b+c+the big file, then unchanged.
fn huge_hunk(run: &Run) {
    let mut spec = tree::Snapshot::new();
    spec.insert("/".into(), tree::Node::dir());
    for (i, name) in ["/a", "/b"].iter().enumerate() {
        let mut n = tree::Node::file(format!("small file {name}").into_bytes());
        n.mtime_s = 1_650_000_000 + i as i64;
        spec.insert((*name).into(), n);
    }
    let o = Opts { hunk: 100_000, block: 64, cap: 100 };
    let mut w = World::with_spec("c14h", spec, GenParams::small(64, 100), run.seed);
    run.eval();
    let replay = json!({"huge_hunk": true});
    let r0 = w.backup(o);
    let mut spec = w.spec.clone();
    let mut c = tree::Node::file(b"small file /c".to_vec());
    c.mtime_s = 1_650_000_010;
    spec.insert("/c".into(), c);
    let mut big = tree::Node::file([b'x'; 64].repeat(262_144));
    big.mtime_s = 1_650_000_011;
    spec.insert("/zbig".into(), big);
    w.set_spec(spec);
    let r1 = w.backup(o);
    let r2 = w.backup(o);
    for r in [&r0, &r1, &r2] {
        if !r.backup.as_ref().unwrap().clean() {
            run.violation("huge-hunk-backup-not-clean", format!("{}: {}", r.desc, r.backup.as_ref().unwrap().describe().chars().take(300).collect::<String>()), replay);
            return;
        }
    }
    let writes = block_writes(&r2.events);
    if !writes.is_empty() {
        run.violation("unchanged-tree-wrote-blocks", format!("[tree with a 16 MiB file in 64-byte blocks: one hunk of tens of megabytes] third backup of the unchanged tree issued {} block writes, first {}", writes.len(), writes[0].brief()), replay);
        return;
    }
    let raw = w.raw(false);
    let (a, b) = (addrs_by_path(&raw, 1), addrs_by_path(&raw, 2));
    if a != b || a.get("/zbig").map(|v| v.len()).unwrap_or(0) != 262_144 {
        run.violation("unchanged-tree-recorded-different-addresses", format!("[huge hunk] {} vs {} file entries, /zbig has {:?} addresses", a.len(), b.len(), a.get("/zbig").map(|v| v.len())), replay);
        return;
    }
    run.count("unchanged_tree_backups", 1);
    run.count("unchanged_backups_over_a_hunk_of_tens_of_megabytes", 1);
}

/// Scale: blocks of many megabytes. Identical large files, and a file made of identical
/// large blocks, are stored once -- within one run (the second occurrence is known from the
/// first) and across runs.
fn large_blocks(run: &Run) {
    const MB: usize = 1 << 20;
    for (label, o, sizes) in [
        // default options: 20 MiB blocks; two identical files of 21 MiB + 5 and one of 9 MiB twice
        ("default options", Opts::DEFAULT, vec![("/big1", 21 * MB + 5, 1u64), ("/big2", 21 * MB + 5, 1), ("/mid1", 9 * MB, 2), ("/mid2", 9 * MB, 2), ("/small", 10, 3)]),
        // 9 MiB blocks: one file of three identical blocks
        ("9 MiB blocks", Opts { hunk: 100_000, block: 9 * MB, cap: 1 << 20 }, vec![("/rep", 27 * MB, 4), ("/small", 10, 3)]),
    ] {
        let mut spec = tree::Snapshot::new();
        spec.insert("/".into(), tree::Node::dir());
        for (i, (name, size, content_id)) in sizes.iter().enumerate() {
            let content: Vec<u8> = if *content_id == 4 {
                // three identical thirds
                let mut r = Rng::for_case(run.seed, 4, 2100);
                let third = r.bytes(size / 3);
                [third.clone(), third.clone(), third].concat()
            } else {
                Rng::for_case(run.seed, *content_id, 2100).bytes(*size)
            };
            let mut n = tree::Node::file(content);
            n.mtime_s = 1_650_000_000 + i as i64;
            spec.insert(name.to_string(), n);
        }
        let mut w = World::with_spec("c14big", spec, GenParams::small(64, 16), run.seed);
        run.eval();
        let mut written: BTreeSet<String> = BTreeSet::new();
        for round in 0..2 {
            let rep = w.backup(o);
            let desc = format!("[{label}: {:?}] backup #{round}", sizes.iter().map(|(n, s, _)| format!("{n} {s}")).collect::<Vec<_>>());
            let replay = json!({"large_blocks": true, "label": label, "round": round});
            let out = rep.backup.as_ref().unwrap();
            for e in block_writes(&rep.events) {
                run.count("block_writes_observed", 1);
                run.count("large_block_writes_observed", matches!(e.post, Some(FState::File { len, .. }) if len > (1 << 20)) as u64);
                let pre_nonempty = matches!(e.pre, Some(FState::File { len, .. }) if len > 0);
                if pre_nonempty || !written.insert(e.path.clone()) {
                    run.violation("block-write-issued-for-existing-block", format!("{desc}: {} (pre-state {:?})", e.brief(), e.pre), replay.clone());
                    return;
                }
            }
            if !out.clean() {
                run.violation("large-blocks-backup-not-clean", format!("{desc}: {}", out.describe()), replay.clone());
                return;
            }
            if round == 1 && !block_writes(&rep.events).is_empty() {
                run.violation("unchanged-tree-wrote-blocks", desc, replay);
                return;
            }
        }
        let band = *w.sources.keys().next().unwrap();
        if let Err(m) = crate::oracle::restore_and_compare(&w.arch, Some(band), &w.snap, &w.sc, &tree::CmpOpts::default()) {
            run.violation(format!("large-blocks:{}", m.class), m.detail, json!({"large_blocks": true, "label": label}));
            return;
        }
        run.count("large_block_scenarios", 1);
    }
}

pub fn run(tier: Tier, replay: Option<Value>) -> i32 {
    let run = Run::new("C14", "fault_enumeration", tier, replay.clone());
    let bulk = || {
    let resume_replay = replay.as_ref().and_then(|r| r.get("resume")).is_some();
    if !resume_replay && replay.as_ref().and_then(|r| r.get("unchanged_resume")).is_none() && replay.as_ref().and_then(|r| r.get("read_fault")).is_none() {
        run.par_cases(tier.pick(150, 6000), super::threads(), |c| one_history(&run, c));
    }
    let unchanged_replay = replay.as_ref().and_then(|r| r.get("unchanged_resume")).is_some();
    if (replay.is_none() || resume_replay) && !unchanged_replay && replay.as_ref().and_then(|r| r.get("read_fault")).is_none() {
        run.par_cases(tier.pick(16, 400), super::threads(), |c| one_scenario(&run, c));
    }
    let fault_replay = replay.as_ref().and_then(|r| r.get("read_fault")).is_some();
    if replay.is_none() || fault_replay {
        run.par_cases(tier.pick(6, 60), super::threads(), |c| one_read_fault_scenario(&run, c));
    }
    if (replay.is_none() || unchanged_replay) && !fault_replay {
        run.par_cases(tier.pick(12, 200), super::threads(), |c| one_unchanged_scenario(&run, c));
    }
    };
    let scale = || {
        if replay.is_none() || replay.as_ref().and_then(|r| r.get("many_hunks")).is_some() {
            many_hunks(&run);
        }
        if replay.is_none() || replay.as_ref().and_then(|r| r.get("large_blocks")).is_some() {
            large_blocks(&run);
        }
        if replay.is_none() || replay.as_ref().and_then(|r| r.get("huge_hunk")).is_some() {
            huge_hunk(&run);
        }
    };
    let scale_replay = replay.as_ref().map(|r| r.get("many_hunks").is_some() || r.get("large_blocks").is_some() || r.get("huge_hunk").is_some()).unwrap_or(false);
    if replay.is_none() {
        // the scale scenarios are sequential: started first and run alongside the bulk
        super::alongside(&run, "the scale scenarios", scale, bulk);
    } else if scale_replay {
        super::alongside(&run, "the scale scenarios", scale, || ());
    } else {
        bulk();
    }
    let needs: &[(&str, u64)] = if replay.is_some() { &[] } else {
        &[("large_block_scenarios", 2), ("large_block_writes_observed", 4), ("unchanged_backups_of_versions_with_more_than_10000_hunks", 1), ("unchanged_backups_over_a_hunk_of_tens_of_megabytes", 1), ("unchanged_tree_backups", 10), ("unchanged_tree_backups_with_foreign_files_in_the_archive", 3), ("block_writes_observed", 100), ("resume_crash_points", 100), ("crash_points_with_recorded_file_entries", 20), ("recorded_entries_compared", 50), ("unchanged_resume_crash_points", 100), ("read_fault_runs", 100)]
    };
    run.finish(
        "clause 1: in histories, a second backup of an untouched tree (same or different options; every other time with the owner option switched off; every third time with files of another program -- .DS_Store, .nfs... -- beside the band directories, in the previous band, in its index directory and in its first hunk subdirectory) must issue zero block writes, report written_blocks == 0 and record identical addresses for every file (independent decode); clause 2: in every backup of every history each block write is issued only for a name whose file is absent or zero-length, and at most once (attempts are counted, from the interceptor log with pre-states); clause 3: for EVERY crash point k of the C03 scenarios' backup trace, the run is killed before k and then resumed with the same options: no block file left non-empty by the interrupted run is written again, every file entry recorded in the interrupted run's hunks reappears with identical addresses, and unmodified_files >= their number; and for trees that have not changed since the last complete version, a backup killed at EVERY point followed by another backup must still write no block and record that version's addresses. Also, clause 2 under single faults: every read / list_dir / metadata operation of a backup's trace fails once with each of 4 kinds, and still no block write may be issued for a name whose file exists non-empty. Scale: a 10 040-file tree with one entry per hunk backed up twice (no block written, same addresses); a tree that grows to include a 16 MiB file stored in 64-byte blocks (262 144 addresses: one hunk of tens of megabytes) and is then backed up unchanged; two scenarios with blocks of 9-20 MiB (two identical 21 MiB files and two identical 9 MiB files under default options; one 27 MiB file of three identical 9 MiB blocks): each block is written once, a second backup writes none, the restore is exact. Distinct = histories with an unchanged-tree pair / (scenario, k) with recorded entries.",
        &["kill = no later storage effect", "E2 reader trusted"],
        Some(true),
        needs,
    )
}
