//! C13 — everything written conforms to the documented archive format.

use std::collections::BTreeMap;

use serde_json::{Value, json};

use crate::cs::{self, Opts};
use crate::fmt06::{self, Hunk, Raw};
use crate::history::{StepKind, World};
use crate::oracle::{apath_cmp, apath_valid};
use crate::report::{Run, Tier};
use crate::rng::{Rng, fnv};
use crate::scratch::Scratch;
use crate::tree::{self, GenParams, Kind, Node, Snapshot};

pub struct Conf {
    pub hunks: u64,
    pub entries: u64,
    pub blocks: u64,
    pub addrs: u64,
}

/// The independent reader's view of the documented invariants. `sources` gives, per band, the
/// snapshot of the tree it was made from (for the size clause). `quiescent_complete` lists bands
/// that must have a truthful tail.
pub fn check_format(raw: &Raw, sources: &BTreeMap<u32, Snapshot>) -> Result<Conf, (String, String)> {
    let mut c = Conf { hunks: 0, entries: 0, blocks: 0, addrs: 0 };
    let err = |sig: &str, d: String| Err((sig.to_string(), d));
    if raw.header.as_ref().and_then(|h| h.get("conserve_archive_version")).and_then(|v| v.as_str()) != Some("0.6") {
        return err("archive-header", format!("{:?}", raw.header));
    }
    if !raw.top_other.is_empty() {
        return err("unexpected-top-level-entry", format!("{:?}", raw.top_other));
    }
    if !raw.misplaced_blocks.is_empty() {
        return err("block-not-under-first-three-hex-digits", format!("{:?}", &raw.misplaced_blocks[..1]));
    }
    for (name, b) in &raw.blocks {
        c.blocks += 1;
        if b.len.is_none() {
            return err("block-does-not-decompress", format!("{name} ({} bytes)", b.comp_len));
        }
        if !b.hash_ok {
            return err("block-name-is-not-blake2b-of-content", name.clone());
        }
    }
    for (id, band) in &raw.bands {
        if band.dirname != fmt06::band_dirname(*id) {
            return err("band-directory-name", band.dirname.clone());
        }
        if band.head_raw.is_none() && band.hunks.is_empty() && band.tail_raw.is_none() {
            // directory created, nothing written yet
            continue;
        }
        let Some(head) = &band.head else {
            return err("band-head-unparsable", format!("b{id:04}"));
        };
        if !head.get("start_time").map(|v| v.is_i64()).unwrap_or(false)
            || !head.get("band_format_version").map(|v| v.is_string()).unwrap_or(false)
        {
            return err("band-head-fields", format!("b{id:04}: {head}"));
        }
        if !band.unexpected.is_empty() {
            return err("hunk-file-not-at-canonical-path", format!("b{id:04}: {:?}", band.unexpected));
        }
        let nums: Vec<u32> = band.hunks.keys().copied().collect();
        if nums != (0..nums.len() as u32).collect::<Vec<_>>() {
            return err("hunk-numbers-not-consecutive-from-zero", format!("b{id:04}: {nums:?}"));
        }
        if let Some(tail_raw) = &band.tail_raw {
            let Some(tail) = &band.tail else {
                return err("band-tail-unparsable", format!("b{id:04}: {} bytes", tail_raw.len()));
            };
            if !tail.get("end_time").map(|v| v.is_i64()).unwrap_or(false) {
                return err("band-tail-fields", format!("b{id:04}: {tail}"));
            }
            if tail.get("index_hunk_count").and_then(|v| v.as_u64()) != Some(nums.len() as u64) {
                return err(
                    "tail-hunk-count-wrong",
                    format!("b{id:04}: tail says {:?}, {} hunk files present", tail.get("index_hunk_count"), nums.len()),
                );
            }
        }
        let mut prev: Option<String> = None;
        for (n, h) in &band.hunks {
            c.hunks += 1;
            let Hunk::Ok(es) = h else {
                return err("hunk-does-not-decode", format!("b{id:04} hunk {n}: {h:?}"));
            };
            if es.is_empty() {
                return err("empty-hunk", format!("b{id:04} hunk {n}"));
            }
            for e in es {
                c.entries += 1;
                if !apath_valid(&e.apath) {
                    return err("invalid-apath-in-index", format!("b{id:04}: {:?}", e.apath));
                }
                if let Some(p) = &prev {
                    if apath_cmp(p, &e.apath) != std::cmp::Ordering::Less {
                        return err("index-not-strictly-increasing", format!("b{id:04} hunk {n}: {p:?} then {:?}", e.apath));
                    }
                }
                prev = Some(e.apath.clone());
                match e.kind.as_str() {
                    "File" => {
                        if e.target.is_some() {
                            return err("file-entry-with-target", format!("b{id:04} {}", e.apath));
                        }
                    }
                    "Dir" | "Symlink" => {
                        if e.has_addrs_key {
                            return err("non-file-entry-with-addrs", format!("b{id:04} {} ({})", e.apath, e.kind));
                        }
                        if (e.kind == "Symlink") != e.target.is_some() {
                            return err("target-on-wrong-kind", format!("b{id:04} {} ({})", e.apath, e.kind));
                        }
                    }
                    other => return err("unknown-kind", format!("b{id:04} {}: {other}", e.apath)),
                }
                if e.raw.get("unix_mode").is_none() || e.raw.get("mtime").is_none() {
                    return err("entry-missing-documented-key", format!("b{id:04} {}: {}", e.apath, e.raw));
                }
                if e.mtime_nanos >= 1_000_000_000 {
                    return err("mtime-nanos-out-of-range", format!("b{id:04} {}: {}", e.apath, e.mtime_nanos));
                }
                for a in &e.addrs {
                    c.addrs += 1;
                    match raw.blocks.get(&a.hash).and_then(|b| b.len) {
                        None => return err("address-names-missing-block", format!("b{id:04} {}: {}", e.apath, &a.hash[..12])),
                        Some(l) if a.start + a.len > l => {
                            return err("address-outside-block", format!("b{id:04} {}: {}+{} > {l}", e.apath, a.start, a.len));
                        }
                        _ => {}
                    }
                    if a.len == 0 {
                        return err("zero-length-address", format!("b{id:04} {}", e.apath));
                    }
                }
                if e.kind == "File" {
                    if let Some(node) = sources.get(id).and_then(|s| s.get(&e.apath)) {
                        if node.kind == Kind::File && node.content.len() as u64 != e.size() {
                            return err(
                                "address-lengths-do-not-sum-to-file-size",
                                format!("b{id:04} {}: addrs sum {} file size {}", e.apath, e.size(), node.content.len()),
                            );
                        }
                    }
                }
            }
        }
    }
    Ok(c)
}

fn one_history(run: &Run, case: u64) {
    let mut rng = Rng::for_case(run.seed, case, 20);
    let block = *rng.pick(&[1usize, 7, 64, 1000]);
    let cap = *rng.pick(&[0u64, 1, 10, 64]);
    let mut p = GenParams::small(block, cap);
    p.target_entries = 5 + rng.below(10) as usize;
    p.max_plain_size = if block == 1 { 40 } else { 4096 };
    let mut w = World::new("c13", &mut rng, p, run.seed ^ case);
    if case % 25 == 3 {
        // scale: hundreds of entries and blocks, long names, deep nesting
        w.widen(&mut rng);
        run.count("histories_on_wide_and_deep_trees", 1);
    }
    let n_steps = 6 + rng.below(run.tier.pick(10, 16)) as usize;
    let mut descs = Vec::new();
    run.eval();
    let mut layouts = std::collections::BTreeSet::new();
    for step in 0..n_steps {
        let rep = w.random_step(&mut rng);
        descs.push(rep.desc.clone());
        if rep.kind == StepKind::Mutate {
            continue;
        }
        let raw = w.raw(true);
        let replay = json!({"case": case, "step": step, "history": descs});
        match check_format(&raw, &w.sources) {
            Ok(c) => {
                run.count("archive_states_checked", 1);
                run.count("hunks_decoded", c.hunks);
                run.count("entries_checked", c.entries);
                run.count("blocks_hashed", c.blocks);
                run.count("addresses_checked", c.addrs);
                if rep.kind == StepKind::Interrupted {
                    run.count("states_after_interrupted_backup", 1);
                }
                for b in raw.bands.values() {
                    layouts.insert(b.hunks.len().min(6));
                }
            }
            Err((sig, d)) => {
                run.violation(format!("format:{sig}"), format!("after {}: {d}", rep.desc), replay);
                return;
            }
        }
    }
    for l in &layouts {
        run.observe("hunks_per_band_classes", format!("{l}"));
    }
    if layouts.len() >= 2 {
        run.nontrivial(fnv(descs.join("|").as_bytes()));
    }
    run.sample(|| json!({"case": case, "history": descs}));
}

/// The source changes underneath a running backup: after the entry `trigger` has been
/// recorded, files that sort after it (already listed and stat'ed with their directory, not yet
/// read) are truncated, emptied, extended, replaced or removed. Whatever the backup makes of
/// them, what it writes must still conform.
fn one_concurrent_change(run: &Run, case: u64) {
    let mut rng = Rng::for_case(run.seed, case, 23);
    let o = Opts { hunk: *rng.pick(&[2usize, 5, 100_000]), block: *rng.pick(&[64usize, 1000, 4096]), cap: *rng.pick(&[10u64, 64, 4096]) };
    let mut spec = Snapshot::new();
    spec.insert("/".into(), Node::dir());
    spec.insert("/d".into(), Node::dir());
    let sizes = [0usize, 3, 9, 10, 11, 60, 64, 65, 300, 1001, 5000, 9000];
    let mut files = Vec::new();
    for i in 0..(6 + rng.below(6)) {
        let dir = if rng.chance(1, 2) { "/d" } else { "" };
        let name = format!("{dir}/f{i:02}");
        let size = *rng.pick(&sizes);
        let mut n = Node::file(tree::gen_content(&mut rng, size));
        n.mtime_s = 1_600_000_000 + i as i64;
        spec.insert(name.clone(), n);
        files.push(name);
    }
    let sc = Scratch::new("c13c");
    let src = sc.join("src");
    tree::sync_to_disk(None, &spec, &src).expect("materialise");
    let snap = tree::snapshot(&src).expect("snapshot");
    files.sort_by(|a, b| apath_cmp(a, b));
    // trigger: one of the entries except the last file; victims: 1-3 files after it
    let ti = rng.below(files.len() as u64 - 1) as usize;
    let trigger = files[ti].clone();
    let later: Vec<String> = files.iter().filter(|f| apath_cmp(&trigger, f) == std::cmp::Ordering::Less).cloned().collect();
    let mut victims: Vec<(String, &'static str)> = Vec::new();
    for v in &later {
        if victims.len() < 3 && rng.chance(1, 2) {
            victims.push((v.clone(), *rng.pick(&["truncate-half", "truncate-0", "truncate-1", "extend", "replace-longer", "remove", "replace-same-size", "becomes-directory", "becomes-directory"])));
        }
    }
    if victims.is_empty() {
        victims.push((later[0].clone(), "truncate-half"));
    }
    let arch = sc.join("arch");
    cs::create_archive(&arch);
    let fired = std::sync::Arc::new(std::sync::atomic::AtomicBool::new(false));
    let cb = {
        let (fired, trigger, victims, src) = (fired.clone(), trigger.clone(), victims.clone(), src.clone());
        std::sync::Arc::new(move |apath: &str| {
            if apath == trigger && !fired.swap(true, std::sync::atomic::Ordering::SeqCst) {
                for (v, action) in &victims {
                    let p = src.join(&v[1..]);
                    let old = std::fs::read(&p).unwrap_or_default();
                    let _ = match *action {
                        "truncate-half" => std::fs::write(&p, &old[..old.len() / 2]),
                        "truncate-0" => std::fs::write(&p, b""),
                        "truncate-1" => std::fs::write(&p, &old[..old.len().min(1)]),
                        "extend" => std::fs::write(&p, [old.clone(), vec![b'+'; 1 + old.len()]].concat()),
                        "replace-longer" => std::fs::write(&p, vec![b'R'; old.len() * 3 + 70]),
                        "replace-same-size" => std::fs::write(&p, vec![b'S'; old.len()]),
                        // opening still works, reading fails
                        "becomes-directory" => std::fs::remove_file(&p).and_then(|()| std::fs::create_dir(&p)),
                        _ => std::fs::remove_file(&p),
                    };
                }
            }
        })
    };
    let desc = format!("{}; after {trigger} was recorded: {victims:?}", o.label());
    let replay = json!({"concurrent_change": true, "case": case});
    run.eval();
    let b = cs::backup_cb(cs::local(&arch), &src, o, cb);
    if let Some(p) = &b.panic {
        run.violation(format!("backup-panic-while-source-changes:{}", crate::report::panic_site(p)), format!("{desc}: {p}"), replay);
        return;
    }
    if !fired.load(std::sync::atomic::Ordering::SeqCst) {
        run.count("concurrent_change_trigger_not_reached", 1);
        return;
    }
    run.count("backups_with_source_changing_underneath", 1);
    let raw = fmt06::read_archive(&arch, true);
    let mut quiet = snap.clone();
    for (v, _) in &victims {
        quiet.remove(v);
    }
    let mut sources = BTreeMap::new();
    sources.insert(0u32, quiet);
    // the files that held still are recorded with their own bytes (an address can be inside its
    // block and of the right length and still be someone else's bytes)
    if let Some(band) = raw.bands.get(&0) {
        for e in band.own_entries() {
            if e.kind != "File" || victims.iter().any(|(v, _)| v == &e.apath) {
                continue;
            }
            let Some(node) = snap.get(&e.apath) else { continue };
            match raw.resolve(e) {
                Ok(bytes) if bytes == node.content => run.count("still_files_resolved_to_their_own_bytes", 1),
                Ok(bytes) => {
                    run.violation(
                        "content-while-source-changes:entry-resolves-to-wrong-bytes",
                        format!("{desc}: {} (untouched) resolves to {} bytes (fnv {:x}), the file has {} bytes (fnv {:x})", e.apath, bytes.len(), fnv(&bytes), node.content.len(), fnv(&node.content)),
                        replay,
                    );
                    return;
                }
                Err(why) => {
                    run.violation("content-while-source-changes:dangling-or-short-reference", format!("{desc}: {}: {why}", e.apath), replay);
                    return;
                }
            }
        }
    }
    match check_format(&raw, &sources) {
        Ok(c) => {
            run.count("entries_checked", c.entries);
            run.count("addresses_checked", c.addrs);
            // what became of the victims
            if let Some(band) = raw.bands.get(&0) {
                let own = band.own_entries();
                for (v, action) in &victims {
                    let old_len = snap[v].content.len() as u64;
                    let fate = match own.iter().find(|e| &e.apath == v) {
                        None => "not-recorded",
                        Some(e) if e.size() == old_len => "recorded-with-the-listed-size",
                        Some(_) => "recorded-with-another-size",
                    };
                    run.observe("victim_fates", format!("{action}:{fate}"));
                    if fate == "recorded-with-another-size" {
                        run.count("victims_recorded_with_a_size_other_than_the_listed_one", 1);
                    }
                }
            }
            run.nontrivial(fnv(desc.as_bytes()));
            run.sample(|| json!({"concurrent_change_case": case, "scenario": desc}));
        }
        Err((sig, d)) => run.violation(format!("format-while-source-changes:{sig}"), format!("{desc}: {d}"), replay),
    }
}

/// Writes that fail part-way: the backup runs in a child process under a file-size limit of a
/// few hundred bytes, so that the kernel writes part of a block (or hunk) and then refuses.
/// Whatever is left behind, and whatever a later backup without the limit adds, must conform.
fn partial_writes(run: &Run) {
    let exe = std::env::current_exe().expect("exe");
    for (i, limit) in [60u64, 150, 400, 700].into_iter().enumerate() {
        let mut rng = Rng::for_case(run.seed, i as u64, 24);
        let mut spec = Snapshot::new();
        spec.insert("/".into(), Node::dir());
        for (name, len) in [("/a", 10usize), ("/b", 30), ("/zlarge1", 2500), ("/zlarge2", 1700)] {
            let mut n = Node::file(rng.bytes(len));
            n.mtime_s = 1_600_000_000;
            spec.insert(name.into(), n);
        }
        let w = World::with_spec("c13p", spec, GenParams::small(1000, 16), run.seed);
        let o = Opts { hunk: 5, block: 1000, cap: 16 };
        let outp = std::process::Command::new(&exe)
            .arg("c04-child")
            .arg(&w.arch)
            .arg(&w.src)
            .arg(o.hunk.to_string())
            .arg(o.block.to_string())
            .arg(o.cap.to_string())
            .arg(limit.to_string())
            .output()
            .expect("spawn child");
        run.eval();
        if !String::from_utf8_lossy(&outp.stdout).contains("RESULT ") {
            run.inconclusive(format!("partial-write child did not report (limit {limit})"));
            continue;
        }
        run.count("backups_under_a_file_size_limit", 1);
        let mut sources = BTreeMap::new();
        sources.insert(0u32, w.snap.clone());
        sources.insert(1u32, w.snap.clone());
        let replay = json!({"partial_writes": true, "limit": limit});
        let raw = fmt06::read_archive(&w.arch, true);
        if let Err((sig, d)) = check_format(&raw, &sources) {
            run.violation(format!("format-after-partial-write:{sig}"), format!("backup under a file-size limit of {limit} bytes: {d}"), replay);
            return;
        }
        let f = cs::backup(cs::local(&w.arch), &w.src, o, &[], None);
        let raw = fmt06::read_archive(&w.arch, true);
        match check_format(&raw, &sources) {
            Ok(c) => {
                run.count("archive_states_checked", 2);
                run.count("addresses_checked", c.addrs);
            }
            Err((sig, d)) => {
                run.violation(format!("format-after-partial-write:{sig}"), format!("backup under a file-size limit of {limit} bytes, then a backup without it ({}): {d}", f.describe()), replay);
                return;
            }
        }
    }
}

/// Large stored files: incompressible content of several MiB under default options (one file
/// above the small-file cap, several below it sharing a combined block), re-read independently.
fn large_blocks(run: &Run) {
    let mut spec = Snapshot::new();
    spec.insert("/".into(), Node::dir());
    for (i, (name, len)) in [("/big", (3usize << 20) + 7), ("/s1", 600_000), ("/s2", 600_000), ("/s3", 600_000), ("/s4", 600_000), ("/s5", 600_000)].iter().enumerate() {
        let mut n = Node::file(Rng::for_case(run.seed, i as u64, 25).bytes(*len));
        n.mtime_s = 1_600_000_000 + i as i64;
        spec.insert((*name).into(), n);
    }
    let mut w = World::with_spec("c13l", spec, GenParams::small(64, 16), run.seed);
    run.eval();
    let r = w.backup(Opts::DEFAULT);
    if !r.backup.as_ref().unwrap().clean() {
        run.inconclusive(format!("large-block backup not clean: {}", r.backup.as_ref().unwrap().describe()));
        return;
    }
    let raw = w.raw(true);
    match check_format(&raw, &w.sources) {
        Ok(c) => {
            run.count("archive_states_checked", 1);
            run.count("addresses_checked", c.addrs);
            run.count("archives_with_stored_files_above_2_mib_checked", raw.blocks.values().any(|b| b.comp_len > (2 << 20)) as u64);
        }
        Err((sig, d)) => run.violation(format!("format:{sig}"), format!("default options, incompressible files of 3 MiB and 5 x 600 kB: {d}"), json!({"large_blocks": true})),
    }
}

/// A band with more than 10 000 hunks crosses into the second hunk subdirectory.
fn many_hunks(run: &Run) {
    let sc = Scratch::new("c13big");
    let src = sc.join("src");
    let mut spec = Snapshot::new();
    spec.insert("/".into(), Node::dir());
    for i in 0..10_050u32 {
        let mut n = Node::file(Vec::new());
        n.mtime_s = 1_600_000_000 + i as i64;
        spec.insert(format!("/f{i:05}"), n);
    }
    tree::sync_to_disk(None, &spec, &src).unwrap();
    let snap = tree::snapshot(&src).unwrap();
    let arch = sc.join("arch");
    cs::create_archive(&arch);
    let o = Opts { hunk: 1, block: 64, cap: 16 };
    let b = cs::backup(cs::local(&arch), &src, o, &[], None);
    run.eval();
    if !b.clean() {
        run.violation("format:many-hunks-backup-failed", b.describe(), json!({"many_hunks": true}));
        return;
    }
    let raw = fmt06::read_archive(&arch, true);
    let mut sources = BTreeMap::new();
    sources.insert(0u32, snap);
    match check_format(&raw, &sources) {
        Ok(c) => {
            run.count("hunks_decoded", c.hunks);
            run.count("bands_with_more_than_10000_hunks", (c.hunks > 10_000) as u64);
            run.count("entries_checked", c.entries);
        }
        Err((sig, d)) => run.violation(format!("format:{sig}"), format!("10 051-entry band with 1 entry per hunk: {d}"), json!({"many_hunks": true})),
    }
}

pub fn run(tier: Tier, replay: Option<Value>) -> i32 {
    let run = Run::new("C13", "exploration", tier, replay.clone());
    if replay.as_ref().and_then(|r| r.get("many_hunks")).is_some() {
        many_hunks(&run);
        return run.finish("replay", &[], None, &[]);
    }
    let cc_replay = replay.as_ref().and_then(|r| r.get("concurrent_change")).is_some();
    if !cc_replay {
        run.par_cases(tier.pick(150, 8000), super::threads(), |c| one_history(&run, c));
    }
    if replay.is_none() || cc_replay {
        run.par_cases(tier.pick(400, 20000), super::threads(), |c| one_concurrent_change(&run, c));
    }
    if replay.is_none() {
        many_hunks(&run);
    }
    if replay.is_none() || replay.as_ref().and_then(|r| r.get("partial_writes")).is_some() {
        partial_writes(&run);
    }
    if replay.is_none() || replay.as_ref().and_then(|r| r.get("large_blocks")).is_some() {
        large_blocks(&run);
    }
    run.finish(
        "histories as in C02 with options drawn to produce every layout (1-entry hunks, 1-byte blocks, small-file cap 0/1, hunks overflowing through a combined flush), plus one band of 10 051 one-entry hunks (crossing i/00001); plus one archive made with default options from incompressible files of 3 MiB and 5 x 600 kB (stored block files above 2 MiB); plus four backups run in a child process under a file-size limit of 60-700 bytes (writes that fail part-way), each followed by a backup without the limit; plus backups during which the source changes underneath (from the change callback of one entry, 1-3 files sorting after it -- already listed and stat'ed, not yet read -- are truncated, emptied, extended, replaced, removed or turned into directories: the size clause is then waived for those files, everything else must hold, and every file that held still must be recorded with its own bytes); after every archive-changing step, including interrupted backups, the harness's own reader (std::fs + raw Snappy + serde_json::Value + BLAKE2b) checks: band directory names, head and tail fields, tail hunk count == hunk files, hunk files at their canonical paths numbered 0..m-1, each hunk decodes and is non-empty, apaths valid and strictly increasing within and across hunks, kinds, addrs only on files with lengths summing to the file's size in that version's source snapshot, target exactly on symlinks, every block under its first three hex digits and named by the BLAKE2b-512 of its content, every address inside its block. Non-trivial = history producing bands with different hunk counts.",
        &["doc/format.md says the address length key is 'length'; conserve writes and reads 'len' — the reader follows the code (noted in DESIGN.md)", "snap, serde_json, blake2-rfc trusted"],
        None,
        &[("archive_states_checked", 100), ("states_after_interrupted_backup", 5), ("addresses_checked", 500), ("bands_with_more_than_10000_hunks", 1), ("backups_with_source_changing_underneath", 100), ("backups_under_a_file_size_limit", 3), ("archives_with_stored_files_above_2_mib_checked", 1), ("victims_recorded_with_a_size_other_than_the_listed_one", 10)],
    )
}
