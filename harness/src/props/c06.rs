//! C06 — a garbage collection and a backup running together never lose data.

use std::collections::{BTreeMap, BTreeSet};
use std::path::{Path, PathBuf};
use std::sync::Arc;
use std::time::Duration;

use conserve::monitor::test::TestMonitor;
use conserve::{Archive, BandId, DeleteOptions};
use serde_json::{Value, json};

use crate::cs::{self, Opts};
use crate::fmt06;
use crate::history::World;
use crate::icept::{Ev, V};
use crate::oracle::restore_and_compare;
use crate::props::c03::path_class;
use crate::report::{Run, Tier, guard, panic_site};
use crate::rng::{Rng, fnv};
use crate::sched::{Plan, Sched, drive};
use crate::tree::{self, CmpOpts, GenParams, Node, Snapshot, gen_content};

pub const A: u32 = 1; // backup
pub const B: u32 = 2; // delete / gc

pub struct Scen {
    pub world: World,
    pub opts: Opts,
    pub delete: Vec<u32>,
    pub garbage: BTreeSet<String>,
    pub desc: String,
    /// One storage fault of the backup, addressed by (verb, path, occurrence): the same fault
    /// under every schedule.
    pub fault: Option<(V, String, usize, conserve::transport::ErrorKind)>,
    /// B runs with DeleteOptions::break_lock (although there is no stale lock to break).
    pub break_lock: bool,
}

/// Archive with >= 1 complete version plus garbage blocks (a large-file block and a combined
/// block) whose content reappears in the source that A backs up.
pub fn build(seed: u64, case: u64, tag: &str) -> Scen {
    let mut rng = Rng::for_case(seed, case, 7);
    let opts = Opts { hunk: 100_000, block: 200, cap: 20 };
    let mut p = GenParams::small(opts.block, opts.cap);
    p.target_entries = 5 + rng.below(4) as usize;
    p.max_plain_size = 300;
    p.hostile_mtimes = false;
    p.hostile_modes = false;
    p.owners = false;
    let mut w = World::new(tag, &mut rng, p, seed ^ (case << 9));
    let r = w.backup(opts);
    assert!(r.backup.as_ref().unwrap().ok());
    // vG: adds files whose blocks will become garbage
    let big = gen_content(&mut rng, 150);
    let smalls: Vec<Vec<u8>> = (0..3).map(|i| gen_content(&mut rng, 4 + i)).collect();
    let add = |w: &mut World, rng: &mut Rng| {
        let old = w.spec.clone();
        let mut n = Node::file(big.clone());
        (n.mtime_s, n.mtime_ns) = w.clock.next(rng);
        w.spec.insert("/gbig".into(), n);
        for (i, c) in smalls.iter().enumerate() {
            let mut n = Node::file(c.clone());
            (n.mtime_s, n.mtime_ns) = w.clock.next(rng);
            w.spec.insert(format!("/gs{i}"), n);
        }
        tree::sync_to_disk(Some(&old), &w.spec, &w.src).unwrap();
        w.snap = tree::snapshot(&w.src).unwrap();
    };
    add(&mut w, &mut rng);
    let rg = w.backup(opts);
    assert!(rg.backup.as_ref().unwrap().ok());
    let g = rg.new_band.unwrap();
    // remove them again and make the newest complete version
    {
        let old = w.spec.clone();
        w.spec.retain(|p, _| !p.starts_with("/gbig") && !p.starts_with("/gs"));
        tree::sync_to_disk(Some(&old), &w.spec, &w.src).unwrap();
        w.snap = tree::snapshot(&w.src).unwrap();
    }
    w.mutate(&mut rng, 2);
    let r1 = w.backup(opts);
    assert!(r1.backup.as_ref().unwrap().ok());
    // the state a delete of vG killed after removing the band directory leaves
    let before: BTreeSet<String> = w.raw(false).referenced_blocks(w.raw(false).bands.keys().copied());
    std::fs::remove_dir_all(w.arch.join(fmt06::band_dirname(g))).unwrap();
    w.sources.remove(&g);
    let raw = w.raw(false);
    let still: BTreeSet<String> = raw.referenced_blocks(raw.bands.keys().copied());
    let garbage: BTreeSet<String> = before.difference(&still).cloned().collect();
    // A's source: the garbage content reappears
    add(&mut w, &mut rng);
    // B is a gc, a delete of the oldest version, or a delete of the newest version (the one
    // the backup uses as its basis)
    let newest = *raw.bands.keys().max().unwrap();
    let delete = match case % 3 {
        0 => vec![],
        1 => vec![0],
        _ => vec![newest],
    };
    let desc = format!(
        "bands {:?}, garbage blocks {}, B = {}",
        raw.bands.keys().collect::<Vec<_>>(),
        garbage.len(),
        if delete.is_empty() { "gc".to_string() } else { format!("delete {delete:?}") }
    );
    Scen { world: w, opts, delete, garbage, desc, fault: None, break_lock: false }
}

pub struct SchedOutcome {
    pub arch: PathBuf,
    pub a: cs::Outcome<conserve::BackupStats>,
    pub b: cs::Outcome<conserve::DeleteStats>,
    pub log: Vec<Ev>,
    pub steps: usize,
    pub effective_switches: usize,
    pub sched_error: Option<String>,
}

pub fn run_schedule(sc: &Scen, plan: &Plan) -> SchedOutcome {
    let arch = sc.world.sc.fresh("sched");
    fmt06::copy_dir(&sc.world.arch, &arch);
    let s = Sched::new(&arch, &[A, B]);
    if let Some((v, p, nth, kind)) = &sc.fault {
        s.set_fault(A, *v, p, *nth, *kind);
    }
    let src = sc.world.src.clone();
    let opts = sc.opts;
    let del = sc.delete.clone();
    let break_lock = sc.break_lock;
    let (sa, sb) = (s.clone(), s.clone());
    let ta = std::thread::spawn(move || {
        let monitor = TestMonitor::arc();
        let m2 = monitor.clone();
        let r = guard(|| {
            sa.run_actor(A, move |t| {
                Box::pin(async move {
                    let archive = Archive::open(t).await.map_err(cs::errstr)?;
                    conserve::backup(&archive, &src, &cs::backup_opts(opts, &[], None), m2)
                        .await
                        .map_err(cs::errstr)
                })
            })
        });
        if r.is_err() {
            sa.abandon(A);
        }
        let errors: Vec<String> = monitor.take_errors().into_iter().map(cs::errstr).collect();
        match r {
            Ok(res) => cs::Outcome { panic: None, result: Some(res), errors },
            Err(p) => cs::Outcome { panic: Some(p), result: None, errors },
        }
    });
    let tb = std::thread::spawn(move || {
        let monitor = TestMonitor::arc();
        let m2 = monitor.clone();
        let r = guard(|| {
            sb.run_actor(B, move |t| {
                Box::pin(async move {
                    let archive = Archive::open(t).await.map_err(cs::errstr)?;
                    let ids: Vec<BandId> = del.iter().map(|b| BandId::new(&[*b])).collect();
                    archive
                        .delete_bands(&ids, &DeleteOptions { dry_run: false, break_lock }, m2)
                        .await
                        .map_err(cs::errstr)
                })
            })
        });
        if r.is_err() {
            sb.abandon(B);
        }
        let errors: Vec<String> = monitor.take_errors().into_iter().map(cs::errstr).collect();
        match r {
            Ok(res) => cs::Outcome { panic: None, result: Some(res), errors },
            Err(p) => cs::Outcome { panic: Some(p), result: None, errors },
        }
    });
    let d = drive(&s, plan, Duration::from_secs(30));
    let a = ta.join().expect("actor thread");
    let b = tb.join().expect("actor thread");
    SchedOutcome {
        arch,
        a,
        b,
        log: s.log(),
        steps: d.steps,
        effective_switches: d.effective_switches,
        sched_error: d.error,
    }
}

/// Which orderings of the two check-then-act pairs the schedule had.
fn windows(log: &[Ev]) -> (Option<bool>, Option<bool>) {
    let a_lockcheck = log.iter().find(|e| e.actor == A && e.verb == V::Metadata && e.path == "GC_LOCK").map(|e| e.idx);
    let b_lockwrite = log.iter().find(|e| e.actor == B && e.verb == V::Write && e.path == "GC_LOCK").map(|e| e.idx);
    let a_band = log
        .iter()
        .find(|e| e.actor == A && e.verb == V::CreateDir && path_class(&e.path) == "banddir")
        .map(|e| e.idx);
    let b_first_remove = log
        .iter()
        .find(|e| e.actor == B && matches!(e.verb, V::RemoveFile | V::RemoveDirAll) && e.path != "GC_LOCK")
        .map(|e| e.idx);
    let b_check = b_first_remove.and_then(|r| {
        log.iter()
            .filter(|e| e.actor == B && e.verb == V::ListDir && e.path.is_empty() && e.idx < r)
            .map(|e| e.idx)
            .max()
    });
    let w1 = match (a_lockcheck, b_lockwrite) {
        (Some(a), Some(b)) => Some(a < b),
        _ => None,
    };
    let w2 = match (b_check, a_band) {
        (Some(b), Some(a)) => Some(b < a),
        _ => None,
    };
    (w1, w2)
}

fn judge(run: &Run, sc: &Scen, plan: &Plan, o: &SchedOutcome, replay: &Value) {
    if let Some(e) = &o.sched_error {
        run.inconclusive(format!("{e} (plan {plan:?})"));
        return;
    }
    run.count(
        &format!(
            "outcome_backup_{}_gc_{}",
            if o.a.ok() { "ok" } else { "err" },
            if o.b.ok() { "ok" } else { "err" }
        ),
        1,
    );
    for (who, p) in [("backup", &o.a.panic), ("gc", &o.b.panic)] {
        if let Some(p) = p {
            run.violation(format!("{who}-panic:{}", panic_site(p)), p.clone(), replay.clone());
            return;
        }
    }
    let raw = fmt06::read_archive(&o.arch, true);
    let mut sources: BTreeMap<u32, Snapshot> = sc.world.sources.clone();
    let prior_max = sc.world.raw(false).bands.keys().max().copied().unwrap_or(0);
    for id in raw.bands.keys() {
        if *id > prior_max {
            sources.insert(*id, sc.world.snap.clone());
        }
    }
    // vacuity guard: did A's version end up referencing a block that was garbage?
    let a_refs: BTreeSet<String> = raw
        .bands
        .keys()
        .filter(|id| **id > prior_max)
        .flat_map(|id| raw.references_of_band(*id).into_keys())
        .collect();
    if a_refs.iter().any(|h| sc.garbage.contains(h)) {
        run.count("schedules_backup_references_former_garbage", 1);
    }
    if o.a.value().map(|s| s.deduplicated_blocks > 0).unwrap_or(false) {
        run.count("schedules_backup_deduplicated", 1);
    }
    let (w1, w2) = windows(&o.log);
    for b in raw.complete_bands() {
        let d = raw.dangling_refs(b);
        let lost = if !d.is_empty() {
            Some(format!("b{b:04} refers to removed blocks: {:?}", &d[..d.len().min(3)]))
        } else if let Some(src) = sources.get(&b) {
            restore_and_compare(&o.arch, Some(b), src, &sc.world.sc, &CmpOpts::default())
                .err()
                .map(|m| format!("b{b:04} {}: {}", m.class, m.detail))
        } else {
            None
        };
        if let Some(detail) = lost {
            let new_band = b > prior_max;
            let sig = if new_band && w1 == Some(true) && w2 == Some(true) {
                "gc-backup-race:backup-lockcheck-before-gc-lock+gc-check-before-band-create".to_string()
            } else {
                format!(
                    "gc-backup-race:{}:lockcheck-before-lock={w1:?},gc-check-before-band={w2:?}",
                    if new_band { "new-version-lost-blocks" } else { "old-version-lost-blocks" }
                )
            };
            run.violation(
                sig,
                format!("{} plan {plan:?}: backup {} gc {}: {detail}", sc.desc, o.a.describe(), o.b.describe()),
                replay.clone(),
            );
            return;
        }
        run.count("complete_versions_restored", 1);
    }
}

fn plans_bound1(n: usize) -> Vec<Plan> {
    let mut v = Vec::new();
    for first in [A, B] {
        let other = if first == A { B } else { A };
        v.push(Plan { first, switches: vec![] });
        for s in 1..n {
            v.push(Plan { first, switches: vec![(s, other)] });
        }
    }
    v
}

fn plans_bound2(n: usize, stride: usize) -> Vec<Plan> {
    let mut v = Vec::new();
    for first in [A, B] {
        let other = if first == A { B } else { A };
        let mut s1 = 1;
        while s1 < n {
            let mut s2 = s1 + 1;
            while s2 < n {
                v.push(Plan { first, switches: vec![(s1, other), (s2, first)] });
                s2 += stride;
            }
            s1 += stride;
        }
    }
    v
}

/// 3-preemption plans aimed at the operations where the two actors look at each other: actor X
/// runs until just before its a1-th operation, Y until just before its b1-th, X until just
/// before its a2-th, then Y to its end and X to its end; a1 < a2 and b1 range over the
/// "interesting" operations (lock file, root listing, band directory, block directory, first
/// removals) of the sequential run.
fn plans_bound3_targeted(log: &[Ev]) -> Vec<Plan> {
    let interesting = |e: &Ev| {
        let pc = path_class(&e.path);
        matches!(pc, "GC_LOCK" | "root" | "banddir" | "blockdir" | "BANDHEAD" | "BANDTAIL")
            || matches!(e.verb, V::RemoveFile | V::RemoveDirAll)
            || (e.verb == V::Write && pc == "hunk")
    };
    let positions = |actor: u32| -> Vec<usize> {
        let mut v: Vec<usize> = Vec::new();
        let mut removes = 0;
        for (i, e) in log.iter().filter(|e| e.actor == actor).enumerate() {
            if interesting(e) {
                if matches!(e.verb, V::RemoveFile) {
                    removes += 1;
                    if removes > 2 {
                        continue;
                    }
                }
                v.push(i);
                v.push(i + 1);
            }
        }
        v.sort();
        v.dedup();
        v
    };
    let (pa, pb) = (positions(A), positions(B));
    let mut plans = Vec::new();
    for (x, y, px, py) in [(A, B, &pa, &pb), (B, A, &pb, &pa)] {
        for (i, a1) in px.iter().enumerate() {
            for a2 in &px[i + 1..] {
                for b1 in py.iter() {
                    if *a1 == 0 || *b1 == 0 {
                        continue;
                    }
                    plans.push(Plan { first: x, switches: vec![(*a1, y), (a1 + b1, x), (b1 + a2, y)] });
                }
            }
        }
    }
    plans
}

fn random_plan(rng: &mut Rng, n: usize) -> Plan {
    let first = if rng.chance(1, 2) { A } else { B };
    let d = 3 + rng.below(3) as usize;
    let mut pts: Vec<usize> = (0..d).map(|_| 1 + rng.below(n as u64) as usize).collect();
    pts.sort();
    pts.dedup();
    let mut cur = first;
    let switches = pts
        .into_iter()
        .map(|p| {
            cur = if cur == A { B } else { A };
            (p, cur)
        })
        .collect();
    Plan { first, switches }
}

pub fn run(tier: Tier, replay: Option<Value>) -> i32 {
    let run = Run::new("C06", "exploration", tier, replay.clone());
    let n_scen = tier.pick(3u64, 12);
    for case in 0..n_scen {
        if let Some(r) = &replay {
            if r.get("case").and_then(|c| c.as_u64()) != Some(case) {
                continue;
            }
        }
      for pass in 0..4 {
        let replay_fault = replay.as_ref().and_then(|r| r.get("backup_fault")).is_some();
        let replay_break = replay.as_ref().and_then(|r| r.get("break_lock")).is_some();
        let replay_empty = replay.as_ref().and_then(|r| r.get("no_versions")).is_some();
        if replay.is_some() && ((pass == 1) != replay_fault || (pass == 2) != replay_break || (pass == 3) != replay_empty) {
            continue;
        }
        if pass >= 1 && replay.is_none() && !(case == 0 || tier == Tier::Thorough) {
            continue;
        }
        let mut sc = build(run.seed, case, "c06");
        if pass == 3 {
            // an archive with NO version left but all the blocks still there (every version was
            // removed and the removal was killed before the blocks went): the collector's first
            // look finds no band at all
            let ids: Vec<u32> = sc.world.raw(false).bands.keys().copied().collect();
            for id in ids {
                let _ = std::fs::remove_dir_all(sc.world.arch.join(fmt06::band_dirname(id)));
            }
            sc.world.sources.clear();
            sc.garbage = sc.world.raw(true).blocks.keys().cloned().collect();
            sc.delete = vec![];
            sc.desc = format!("no versions, {} garbage blocks, B = gc", sc.garbage.len());
            run.count("scenarios_without_any_version", 1);
        }
        if pass == 2 {
            // the collector is told to break the lock (there is none to break): it must still
            // refuse while the newest version is incomplete, like one that was not told so
            sc.break_lock = true;
            sc.desc.push_str("; B runs with break_lock");
            run.count("scenarios_with_break_lock", 1);
        }
        if pass == 1 {
            // a fault and a schedule together: the backup's second look for GC_LOCK (the root
            // listing that follows its BANDHEAD write) fails; the backup must not carry on as if
            // it had seen no lock
            let probe = run_schedule(&sc, &Plan { first: A, switches: vec![] });
            crate::scratch::rm(&probe.arch);
            let head = probe.log.iter().position(|e| e.actor == A && e.verb == V::Write && e.path.ends_with("BANDHEAD"));
            let nth = head.map(|h| probe.log[..h].iter().filter(|e| e.actor == A && e.verb == V::ListDir && e.path.is_empty()).count());
            let Some(nth) = nth else { continue };
            sc.fault = Some((V::ListDir, String::new(), nth, conserve::transport::ErrorKind::Other));
            sc.desc.push_str(&format!("; the backup's root listing #{nth} (its second look for the lock) fails"));
            run.count("scenarios_with_a_fault_on_the_backups_lock_recheck", 1);
        }
        // length of the sequential run A then B
        let base = run_schedule(&sc, &Plan { first: A, switches: vec![] });
        let n = base.steps + 2;
        crate::scratch::rm(&base.arch);
        run.count("scenarios", 1);
        run.sample(|| json!({"case": case, "scenario": sc.desc, "sequential_steps": n,
            "grants": base.log.iter().map(|e| e.brief()).collect::<Vec<_>>()}));
        let mut plans: Vec<Plan> = if let Some(r) = &replay {
            vec![Plan::from_json(&r["plan"])]
        } else {
            let mut p = plans_bound1(n);
            match tier {
                Tier::Quick => p.extend(plans_bound2(n, if case == 0 { 1 } else { 3 })),
                Tier::Thorough => p.extend(plans_bound2(n, 1)),
            }
            let mut rng = Rng::for_case(run.seed, case, 8 + pass as u64);
            for _ in 0..tier.pick(150, 4000) {
                p.push(random_plan(&mut rng, n));
            }
            if pass == 0 {
                let mut t3 = plans_bound3_targeted(&base.log);
                run.count("targeted_3_preemption_plans_available", t3.len() as u64);
                if tier == Tier::Quick && t3.len() > 1500 {
                    rng.shuffle(&mut t3);
                    t3.truncate(1500);
                }
                p.extend(t3);
            }
            p
        };
        plans.dedup();
        let arc_sc = Arc::new(sc);
        let next = std::sync::atomic::AtomicUsize::new(0);
        std::thread::scope(|s| {
            for _ in 0..super::threads() {
                s.spawn(|| {
                    loop {
                        let i = next.fetch_add(1, std::sync::atomic::Ordering::SeqCst);
                        if i >= plans.len() {
                            break;
                        }
                        if run.out_of_time() {
                            run.count("schedules_skipped_by_time_budget", 1);
                            continue;
                        }
                        let plan = &plans[i];
                        let o = run_schedule(&arc_sc, plan);
                        run.eval();
                        run.count("schedules_run", 1);
                        run.count(&format!("schedules_with_{}_effective_preemptions", o.effective_switches.min(5)), 1);
                        let sig: String = o.log.iter().map(|e| format!("{}{}", e.actor, e.verb.name().len())).collect();
                        run.nontrivial(fnv(format!("{case}|{sig}|{}", o.log.len()).as_bytes()));
                        run.observe("final_archive_states", format!("{:x}", fnv(format!("{:?}", fmt06::dir_bytes(&o.arch).keys().collect::<Vec<_>>()).as_bytes())));
                        let mut replay = json!({"case": case, "plan": plan.to_json(), "scenario": arc_sc.desc,
                            "grants": o.log.iter().map(|e| e.brief()).collect::<Vec<_>>()});
                        if pass == 1 {
                            replay["backup_fault"] = json!(true);
                            run.count("schedules_run_with_a_fault_on_the_backups_lock_recheck", 1);
                        }
                        if pass == 2 {
                            replay["break_lock"] = json!(true);
                            run.count("schedules_run_with_break_lock", 1);
                        }
                        if pass == 3 {
                            replay["no_versions"] = json!(true);
                            run.count("schedules_run_on_an_archive_without_versions", 1);
                        }
                        judge(&run, &arc_sc, plan, &o, &replay);
                        crate::scratch::rm(&o.arch);
                    }
                });
            }
        });
      }
    }
    let _ = Path::new("");
    run.finish(
        "actors A = backup(source) and B = gc, delete of the oldest version, or delete of the newest version (the backup's basis), on archives holding a complete version plus garbage blocks (a large-file block and a combined block left by a hand-removed band) whose content reappears in A's source; every storage operation of either actor is parked until a deterministic scheduler grants it (the scheduler only chooses when both actors are settled). Schedules: all with <= 1 preemption (every start offset of either actor, every switch point), a grid of 2-preemption schedules (every pair in the thorough tier), random schedules with 3-5 switches, and 3-preemption schedules aimed at the operations where the actors look at each other (lock file, root listing, band directory, block directory, first removals, hunk and tail writes): every triple (X stops before its a1-th operation, Y before its b1-th, X before its a2-th) over those positions, 1500 sampled in the quick tier. For the first scenario (every scenario in the thorough tier) all schedules up to two preemptions are run once more with one storage fault added: the backup's second look for the lock (the root listing after its BANDHEAD write) fails; and once more with the collector running with the break_lock option although there is no lock to break; and once more on the archive with every version directory removed and all blocks left (no version, only garbage). When both have finished: every version with a tail must restore exactly to the tree it was made from and no complete band may reference a removed block. Distinct = distinct grant sequences.",
        &["granularity is one storage operation; operations of parallel listing tasks of one actor are granted in canonical order", "interleavings beyond the explored preemption bound are sampled, not enumerated"],
        Some(false),
        &[("schedules_run", 50), ("schedules_backup_references_former_garbage", 5), ("complete_versions_restored", 100), ("schedules_run_with_a_fault_on_the_backups_lock_recheck", 100), ("schedules_run_with_break_lock", 100), ("schedules_run_on_an_archive_without_versions", 100)],
    )
}
