//! C11 — one total order of paths, shared by the source walk and every index.

use std::cmp::Ordering;

use conserve::Apath;
use conserve::monitor::test::TestMonitor;
use serde_json::{Value, json};

use crate::cs;
use crate::fmt06;
use crate::oracle::{apath_cmp, apath_valid, first_disorder};
use crate::report::{Run, Tier, guard};
use crate::rng::{Rng, fnv};
use crate::scratch::Scratch;
use crate::tree::{self, GenParams, GenState};

const VALID_COMPS: &[&str] = &[
    "", ".", "..", " ", "-", ".a", "a", "a b", "ab", "a.b", "~", "é", "a\0",
];

fn enumerate_strings(depth: usize) -> Vec<String> {
    let mut bodies: Vec<String> = Vec::new();
    let mut level: Vec<String> = VALID_COMPS.iter().map(|c| c.to_string()).collect();
    bodies.extend(level.iter().cloned());
    for _ in 1..depth {
        let mut next = Vec::with_capacity(level.len() * VALID_COMPS.len());
        for l in &level {
            for c in VALID_COMPS {
                next.push(format!("{l}/{c}"));
            }
        }
        bodies.extend(next.iter().cloned());
        level = next;
    }
    let mut out = Vec::with_capacity(bodies.len() * 4);
    for b in bodies {
        out.push(format!("/{b}"));
        out.push(b.clone());
        out.push(format!("/{b}/"));
        out.push(format!("{b}/"));
    }
    out.push("/".into());
    out.push(String::new());
    out
}

fn enumerate_valid_paths(alphabet: &[&str], depth: usize) -> Vec<String> {
    let mut out = vec!["/".to_string()];
    let mut level: Vec<String> = vec![String::new()];
    for _ in 0..depth {
        let mut next = Vec::new();
        for l in &level {
            for c in alphabet {
                next.push(format!("{l}/{c}"));
            }
        }
        out.extend(next.iter().cloned());
        level = next;
    }
    out
}

fn check_validity(run: &Run, strings: &[String]) {
    for s in strings {
        run.eval();
        let model = apath_valid(s);
        let got = Apath::is_valid(s);
        let parsed = s.parse::<Apath>().is_ok();
        if model != got || model != parsed {
            run.violation(
                "apath-validity",
                format!("is_valid({s:?}) = {got}, parse ok = {parsed}, documented rule says {model}"),
                json!({"kind": "validity", "string": s}),
            );
            return;
        }
        if model {
            run.count("valid_strings", 1);
        } else {
            run.count("invalid_strings", 1);
        }
    }
    run.count("validity_strings_checked", strings.len() as u64);
}

fn ord_i8(o: Ordering) -> i8 {
    match o {
        Ordering::Less => -1,
        Ordering::Equal => 0,
        Ordering::Greater => 1,
    }
}

fn check_order_exhaustive(run: &Run, name: &str, paths: &[String]) {
    let aps: Vec<Apath> = paths.iter().map(|p| p.parse::<Apath>().expect("valid")).collect();
    let n = aps.len();
    let mut m = vec![0i8; n * n];
    for i in 0..n {
        for j in 0..n {
            let got = aps[i].cmp(&aps[j]);
            m[i * n + j] = ord_i8(got);
            let want = apath_cmp(&paths[i], &paths[j]);
            if got != want {
                run.violation(
                    "apath-cmp-vs-documented-order",
                    format!("cmp({:?}, {:?}) = {got:?}, documented order says {want:?}", paths[i], paths[j]),
                    json!({"kind": "pair", "a": paths[i], "b": paths[j]}),
                );
                return;
            }
            if (got == Ordering::Equal) != (paths[i] == paths[j]) || (aps[i] == aps[j]) != (paths[i] == paths[j]) {
                run.violation(
                    "apath-equality",
                    format!("{:?} vs {:?}: cmp {got:?}, == {}", paths[i], paths[j], aps[i] == aps[j]),
                    json!({"kind": "pair", "a": paths[i], "b": paths[j]}),
                );
                return;
            }
            if aps[i].partial_cmp(&aps[j]) != Some(got) || (aps[i] < aps[j]) != (got == Ordering::Less) {
                run.violation(
                    "apath-partial-ord",
                    format!("{:?} vs {:?}", paths[i], paths[j]),
                    json!({"kind": "pair", "a": paths[i], "b": paths[j]}),
                );
                return;
            }
        }
    }
    run.evals((n * n) as u64);
    run.count("pairs_compared", (n * n) as u64);
    for i in 0..n {
        for j in (i + 1)..n {
            run.nontrivial(fnv(format!("{}\u{0}{}", paths[i], paths[j]).as_bytes()));
        }
    }
    // antisymmetry + transitivity on conserve's own comparison results
    for i in 0..n {
        for j in 0..n {
            if m[i * n + j] != -m[j * n + i] {
                run.violation(
                    "apath-antisymmetry",
                    format!("{:?} vs {:?}", paths[i], paths[j]),
                    json!({"kind": "pair", "a": paths[i], "b": paths[j]}),
                );
                return;
            }
        }
    }
    let mut triples = 0u64;
    for i in 0..n {
        for j in 0..n {
            if m[i * n + j] >= 0 {
                continue;
            }
            for k in 0..n {
                triples += 1;
                if m[j * n + k] < 0 && m[i * n + k] >= 0 {
                    run.violation(
                        "apath-transitivity",
                        format!("{:?} < {:?} < {:?} but not first < third", paths[i], paths[j], paths[k]),
                        json!({"kind": "triple", "a": paths[i], "b": paths[j], "c": paths[k]}),
                    );
                    return;
                }
            }
        }
    }
    run.evals(triples);
    run.count("triples_checked", triples);
    // sort() agrees with the oracle sort
    let mut by_conserve = aps.clone();
    by_conserve.reverse();
    by_conserve.sort();
    let mut by_oracle = paths.to_vec();
    by_oracle.sort_by(|a, b| apath_cmp(a, b));
    let got: Vec<String> = by_conserve.iter().map(|a| a.to_string()).collect();
    if got != by_oracle {
        run.violation("apath-sort", format!("sorted order differs on alphabet {name}"), json!({"kind": "sort", "alphabet": name}));
        return;
    }
    // the descendants of each directory form one contiguous run that comes after the
    // directory itself (which sorts among its siblings); direct children precede deeper ones
    for d in &got {
        let top = got.iter().position(|p| p == d).unwrap();
        let members: Vec<usize> = got
            .iter()
            .enumerate()
            .filter(|(_, p)| *p != d && tree::is_under(p, d))
            .map(|(i, _)| i)
            .collect();
        run.eval();
        if members.is_empty() {
            continue;
        }
        let contiguous = members.last().unwrap() - members[0] + 1 == members.len();
        if !contiguous || top > members[0] {
            run.violation(
                "apath-subtree-not-contiguous",
                format!("descendants of {d:?} are not one contiguous run after it in sorted order"),
                json!({"kind": "subtree", "dir": d, "alphabet": name}),
            );
            return;
        }
        let depth = |p: &str| if p == "/" { 0 } else { p.matches('/').count() };
        let dd = depth(d);
        let mut seen_deeper = false;
        for i in &members {
            let p = &got[*i];
            if depth(p) == dd + 1 {
                if seen_deeper {
                    run.violation(
                        "apath-children-after-grandchildren",
                        format!("direct child {p:?} of {d:?} sorts after a deeper descendant"),
                        json!({"kind": "subtree", "dir": d, "alphabet": name}),
                    );
                    return;
                }
            } else {
                seen_deeper = true;
            }
        }
    }
    run.count("subtrees_checked", got.len() as u64);
}

fn random_path(rng: &mut Rng) -> String {
    let depth = 1 + rng.below(8);
    let mut s = String::new();
    for _ in 0..depth {
        s.push('/');
        match rng.below(4) {
            0 => s.push_str(*rng.pick(tree::NAMES)),
            1 => {
                let base = *rng.pick(tree::NAMES);
                s.push_str(base);
                s.push_str(rng.pick(&["", " ", "-", ".", "/x", "~", "é", "\u{10000}", "0"]).trim_start_matches('/'));
            }
            _ => {
                let n = 1 + rng.below(4);
                for _ in 0..n {
                    let c = *rng.pick(&[' ', '!', '+', '-', '.', '0', 'A', 'a', 'b', '~', '{', 'é', 'ñ', '日', '\u{7f}', '\u{80}', '\u{10ffff}', '\u{1}']);
                    s.push(c);
                }
                if s.ends_with("/.") || s.ends_with("/..") {
                    s.push('x');
                }
            }
        }
    }
    s
}

fn check_random_pairs(run: &Run, n: u64) {
    let mut rng = Rng::for_case(run.seed, 0, 11);
    let mut pool: Vec<String> = Vec::new();
    for _ in 0..n {
        // pairs that share a prefix are the interesting ones: derive b from a half of the time
        let a = random_path(&mut rng);
        let b = if rng.chance(1, 2) && !pool.is_empty() {
            let base = rng.pick(&pool).clone();
            match rng.below(4) {
                0 => format!("{base}{}", rng.pick(&[" ", "-", "a", "~", "é"])),
                1 => format!("{base}/{}", *rng.pick(tree::NAMES)),
                2 => tree::parent_of(&base).to_string(),
                _ => base,
            }
        } else {
            random_path(&mut rng)
        };
        if !apath_valid(&a) || !apath_valid(&b) {
            continue;
        }
        pool.push(a.clone());
        if pool.len() > 64 {
            pool.swap_remove(0);
        }
        let (pa, pb) = (a.parse::<Apath>().unwrap(), b.parse::<Apath>().unwrap());
        let got = pa.cmp(&pb);
        let want = apath_cmp(&a, &b);
        run.eval();
        run.count("random_pairs", 1);
        if a != b {
            run.nontrivial(fnv(format!("{a}\u{0}{b}").as_bytes()));
        }
        if got != want || pb.cmp(&pa) != want.reverse() {
            run.violation(
                "apath-cmp-vs-documented-order",
                format!("cmp({a:?}, {b:?}) = {got:?}, documented order says {want:?}"),
                json!({"kind": "pair", "a": a, "b": b}),
            );
            return;
        }
    }
}

/// Emitters: source walk, listing, written hunks are strictly increasing, for generated trees.
fn check_emitters(run: &Run, cases: u64) {
    run.par_cases(cases, super::threads(), |case| {
        let mut rng = Rng::for_case(run.seed, case, 12);
        let o = cs::Opts {
            hunk: *rng.pick(&[1usize, 2, 3, 5, 8]),
            block: *rng.pick(&[7usize, 64, 1000]),
            cap: *rng.pick(&[0u64, 10, 64]),
        };
        let mut p = GenParams::small(o.block, o.cap);
        p.target_entries = 8 + rng.below(30) as usize;
        p.max_depth = 4;
        p.ctrl_names = true;
        // metadata is C01's business; keep it plain here
        p.hostile_mtimes = false;
        p.hostile_modes = false;
        p.owners = false;
        let mut st = GenState { mode_cursor: 0o644 };
        let spec = tree::gen_tree(&mut rng, &p, &mut st);
        let sc = Scratch::new("c11");
        let src = sc.join("src");
        tree::sync_to_disk(None, &spec, &src).expect("materialise");
        let snap = tree::snapshot(&src).expect("snapshot");
        // names that are not UTF-8 (two Latin-1 names that differ in one byte, side by side): such
        // names have no apath; whatever is done with them, what is emitted stays strictly
        // increasing. They are added after the snapshot and are not part of the expected set.
        let non_utf8 = case % 4 == 1;
        if non_utf8 {
            use std::os::unix::ffi::OsStrExt;
            for name in [&b"caf\xe9"[..], &b"caf\xe8"[..], &b"\xffz"[..]] {
                let _ = std::fs::write(src.join(std::ffi::OsStr::from_bytes(name)), b"");
            }
            run.count("trees_with_names_that_are_not_utf8", 1);
        }
        // 1. the source walk
        let src2 = src.clone();
        let walked = guard(move || {
            let st = conserve::SourceTree::open(&src2).map_err(cs::errstr)?;
            let it = st
                .iter_entries(Apath::root(), conserve::Exclude::nothing(), TestMonitor::arc())
                .map_err(cs::errstr)?;
            use conserve::EntryTrait;
            Ok::<Vec<String>, String>(it.map(|e| e.apath().to_string()).collect())
        });
        let walked = match walked {
            Ok(Ok(w)) => w,
            other => {
                run.violation("source-walk-failed", format!("{other:?}"), json!({"kind": "emit", "case": case}));
                return;
            }
        };
        run.eval();
        run.count("source_walks", 1);
        run.count("source_walk_entries", walked.len() as u64);
        if let Some((a, b)) = first_disorder(walked.iter().map(|s| s.as_str())) {
            run.violation(
                "source-walk-out-of-order",
                format!("source walk emitted {a:?} before {b:?}"),
                json!({"kind": "emit", "case": case}),
            );
            return;
        }
        let mut w = walked.clone();
        w.sort();
        let mut expect: Vec<String> = snap.keys().cloned().collect();
        expect.sort();
        if non_utf8 {
            // entries for such names, if any, are not judged as a set
            w.retain(|p| expect.binary_search(p).is_ok());
            expect.retain(|p| w.binary_search(p).is_ok() || !p.contains('\u{fffd}'));
        }
        if w != expect {
            run.violation(
                "source-walk-wrong-set",
                format!("source walk emitted {} paths, tree has {}", w.len(), expect.len()),
                json!({"kind": "emit", "case": case}),
            );
            return;
        }
        // 2. written hunks and listing
        let arch = sc.join("arch");
        cs::create_archive(&arch);
        let b = cs::backup(cs::local(&arch), &src, o, &[], None);
        if !b.clean() {
            // reported by C01; here only the ordering of what was written is judged
            run.count("backups_not_clean", 1);
        }
        let raw = fmt06::read_archive(&arch, false);
        for band in raw.bands.values() {
            let own = band.own_entries();
            run.count("hunk_entries_decoded", own.len() as u64);
            run.count("hunks_decoded", band.hunks.len() as u64);
            if let Some((a, b)) = first_disorder(own.iter().map(|e| e.apath.as_str())) {
                run.violation(
                    "index-out-of-order",
                    format!("written index has {a:?} before {b:?} ({})", o.label()),
                    json!({"kind": "emit", "case": case}),
                );
                return;
            }
        }
        let l = cs::list(cs::local(&arch), Some(0), "/", &[]);
        if let Some(v) = l.value() {
            run.count("listed_entries", v.len() as u64);
            if let Some((a, b)) = first_disorder(v.iter().map(|e| e.apath.as_str())) {
                run.violation(
                    "listing-out-of-order",
                    format!("listing has {a:?} before {b:?}"),
                    json!({"kind": "emit", "case": case}),
                );
                return;
            }
        }
        // 3. listings stitched from several indexes: two or three further backups of the same
        // (or a slightly changed) tree are killed before one of their writes -- with even odds
        // before the same write, so that consecutive interrupted versions stop at the same
        // path -- and every version is listed again
        if case % 2 == 0 {
            let n_int = 2 + rng.below(2) as usize;
            let total_writes = {
                let probe = sc.join("probe");
                fmt06::copy_dir(&arch, &probe);
                let ic2 = crate::icept::Icept::new(&probe, crate::icept::Mode::Log, 0);
                let _ = cs::backup(ic2.transport(1), &src, o, &[], None);
                let n = ic2.log().iter().filter(|e| e.verb == crate::icept::V::Write).count();
                crate::scratch::rm(&probe);
                n
            };
            let mut nth = 1 + rng.below(total_writes.max(2) as u64 - 1) as usize;
            let mut kills = Vec::new();
            for _ in 0..n_int {
                if rng.chance(1, 2) {
                    nth = 1 + rng.below(total_writes.max(2) as u64 - 1) as usize;
                }
                let ic = crate::icept::Icept::new(&arch, crate::icept::Mode::CrashAtWrite { nth }, case);
                let _ = cs::backup(ic.transport(1), &src, o, &[], None);
                kills.push(nth);
            }
            let raw = fmt06::read_archive(&arch, false);
            for (id, band) in &raw.bands {
                if band.head_raw.is_none() {
                    continue;
                }
                let own = band.own_entries();
                if let Some((a, b)) = first_disorder(own.iter().map(|e| e.apath.as_str())) {
                    run.violation("index-out-of-order", format!("written index of b{id:04} has {a:?} before {b:?}"), json!({"kind": "emit", "case": case}));
                    return;
                }
                let l = cs::list(cs::local(&arch), Some(*id), "/", &[]);
                if let Some(v) = l.value() {
                    run.count("stitched_listings_checked", 1);
                    run.count("listed_entries", v.len() as u64);
                    if let Some((a, b)) = first_disorder(v.iter().map(|e| e.apath.as_str())) {
                        run.violation(
                            "stitched-listing-out-of-order",
                            format!("after {n_int} backups killed before writes {kills:?} ({}), listing b{id:04} has {a:?} before {b:?}", o.label()),
                            json!({"kind": "emit", "case": case}),
                        );
                        return;
                    }
                }
            }
        }
        // 4. indexes written by a backup whose storage refuses one write: for every write of a
        // first backup of this tree (blocks, hunks, head, tail), a fresh archive gets that backup
        // with exactly that write failing; whatever the backup then does (stop, or report the
        // error and go on), every hunk it wrote and the listing of the version are in order
        if case % 2 == 1 {
            let probe = sc.join("probe4");
            cs::create_archive(&probe);
            let ic = crate::icept::Icept::new(&probe, crate::icept::Mode::Log, 0);
            let _ = cs::backup(ic.transport(1), &src, o, &[], None);
            let writes: Vec<(usize, String)> = ic.log().iter().filter(|e| e.verb == crate::icept::V::Write).map(|e| (e.idx, e.path.clone())).collect();
            crate::scratch::rm(&probe);
            for (wi, (k, path)) in writes.iter().enumerate() {
                let kind = [conserve::transport::ErrorKind::Other, conserve::transport::ErrorKind::PermissionDenied, conserve::transport::ErrorKind::Connect][wi % 3];
                let a4 = sc.join("arch4");
                cs::create_archive(&a4);
                let ic = crate::icept::Icept::new(&a4, crate::icept::Mode::FailAt { k: *k, kind }, case);
                let b4 = cs::backup(ic.transport(1), &src, o, &[], None);
                run.count("backups_with_one_refused_write", 1);
                if b4.ok() {
                    run.count("backups_that_went_on_after_a_refused_write", 1);
                }
                let raw = fmt06::read_archive(&a4, false);
                for (id, band) in &raw.bands {
                    let own = band.own_entries();
                    run.count("hunk_entries_decoded", own.len() as u64);
                    if let Some((a, b)) = first_disorder(own.iter().map(|e| e.apath.as_str())) {
                        run.violation(
                            "index-out-of-order:after-a-refused-write",
                            format!("backup ({}) whose write #{k} of {path} failed with {kind:?} returned {}: the index of b{id:04} has {a:?} before {b:?}", o.label(), b4.describe()),
                            json!({"kind": "emit", "case": case}),
                        );
                        return;
                    }
                    if band.head_raw.is_none() {
                        continue;
                    }
                    let l = cs::list(cs::local(&a4), Some(*id), "/", &[]);
                    if let Some(v) = l.value() {
                        run.count("listed_entries", v.len() as u64);
                        if let Some((a, b)) = first_disorder(v.iter().map(|e| e.apath.as_str())) {
                            run.violation(
                                "listing-out-of-order:after-a-refused-write",
                                format!("backup ({}) whose write #{k} of {path} failed with {kind:?}: listing b{id:04} has {a:?} before {b:?}", o.label()),
                                json!({"kind": "emit", "case": case}),
                            );
                            return;
                        }
                    }
                }
                crate::scratch::rm(&a4);
            }
        }
        run.nontrivial(tree::tree_sig(&snap));
        run.sample(|| json!({"emitter_case": case, "options": o.label(), "walked": walked.iter().take(12).collect::<Vec<_>>()}));
    });
}

/// Scale: an index of more than 10 000 hunks (two index subdirectories) is written and listed in
/// strictly increasing order too.
fn many_hunks(run: &Run) {
    let mut w = crate::history::many_hunks_world("c11big", run.seed);
    let r = w.backup(crate::history::MANY_HUNKS_OPTS);
    run.eval();
    let replay = json!({"kind": "many_hunks"});
    if !r.backup.as_ref().unwrap().clean() {
        run.count("backups_not_clean", 1);
    }
    let raw = w.raw(false);
    let own = raw.bands[&0].own_entries();
    run.count("hunk_entries_decoded", own.len() as u64);
    if let Some((a, b)) = first_disorder(own.iter().map(|e| e.apath.as_str())) {
        run.violation("index-out-of-order", format!("written index of the 10 040-file tree has {a:?} before {b:?}"), replay);
        return;
    }
    let l = cs::list(cs::local(&w.arch), Some(0), "/", &[]);
    let Some(v) = l.value() else {
        run.violation("listing-failed", l.describe(), replay);
        return;
    };
    run.count("listed_entries", v.len() as u64);
    if let Some((a, b)) = first_disorder(v.iter().map(|e| e.apath.as_str())) {
        run.violation("listing-out-of-order", format!("listing of the 10 040-file version (10 041 hunks) has {a:?} before {b:?}"), replay);
        return;
    }
    if v.len() != w.snap.len() {
        run.violation("listing-wrong-set", format!("listing of the 10 040-file version has {} entries, the tree {}", v.len(), w.snap.len()), replay);
        return;
    }
    run.count("listings_of_more_than_10000_hunks_checked", 1);
}

pub fn run(tier: Tier, replay: Option<Value>) -> i32 {
    let run = Run::new("C11", "exploration", tier, replay.clone());
    if let Some(r) = &replay {
        // replay of a pair / string: just re-evaluate it
        match r.get("kind").and_then(|k| k.as_str()) {
            Some("pair") => {
                let a = r["a"].as_str().unwrap().to_string();
                let b = r["b"].as_str().unwrap().to_string();
                check_order_exhaustive(&run, "replay", &[a, b]);
            }
            Some("validity") => check_validity(&run, &[r["string"].as_str().unwrap().to_string()]),
            Some("emit") => check_emitters(&run, 1),
            Some("many_hunks") => many_hunks(&run),
            _ => {}
        }
        return run.finish("replay", &[], None, &[]);
    }
    let depth = 4;
    let strings = enumerate_strings(depth);
    run.sample(|| json!({"validity_strings": [&strings[5], &strings[100], &strings[1001]]}));
    check_validity(&run, &strings);
    let a4 = ["a", "a-", "ab", "é"];
    let a7 = ["-", "a", "a b", "a.b", "ab", "~", "é"];
    let p4 = enumerate_valid_paths(&a4, 4);
    let p7 = enumerate_valid_paths(&a7, 3);
    run.sample(|| json!({"order_paths": [&p4[3], &p4[17], &p7[30]]}));
    check_order_exhaustive(&run, "a4", &p4);
    check_order_exhaustive(&run, "a7", &p7);
    if tier == Tier::Thorough {
        // a larger alphabet with more bytes around '/': ' ' '-' '.' below it, '0' 'a' '~' 'é' above
        let a6 = [" ", "-.", "a", "a-", "a0", "é"];
        let p6 = enumerate_valid_paths(&a6, 4);
        check_order_exhaustive(&run, "a6", &p6);
    }
    check_random_pairs(&run, tier.pick(300_000, 3_000_000));
    super::alongside(&run, "the many-hunks listing", || many_hunks(&run), || check_emitters(&run, tier.pick(400, 6000)));
    run.finish(
        "validity: every string over a 13-component alphabet (incl. '', '.', '..', NUL, bytes below and above '/') up to the stated depth, with and without leading/trailing slash; order: all pairs and triples of valid paths over two alphabets (exhaustive) + random longer paths; emitters: generated trees (a quarter of them with extra names that are not UTF-8: two Latin-1 names differing in one byte) walked, backed up with small hunks, decoded independently and listed; for every second tree two or three further backups are killed before a write (with even odds before the same write as the previous one) and every version, now stitched from up to four indexes, is listed again; for the other half of the trees every write of a first backup is refused once (a fresh archive per write, three error kinds) and the hunks that backup wrote and its listing are checked the same way; one tree of 10 040 files is backed up with one entry per hunk (two index subdirectories) and its index and listing checked the same way. Distinct non-trivial = distinct unordered pairs of different paths compared + distinct generated trees.",
        &["the documented order is as restated in oracle::apath_key (doc/format.md)", "snap/serde_json decode written hunks correctly"],
        Some(true),
        &[("pairs_compared", 1000), ("triples_checked", 1000), ("validity_strings_checked", 1000), ("source_walks", 10), ("hunk_entries_decoded", 50), ("stitched_listings_checked", 50), ("backups_with_one_refused_write", 200), ("listings_of_more_than_10000_hunks_checked", 1)],
    )
}
