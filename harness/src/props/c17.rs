//! C17 — the archive is a pure function of the source and the operation history.

use std::collections::BTreeMap;
use std::path::Path;

use serde_json::{Value, json};

use crate::cs;
use crate::fmt06::{self, FsItem};
use crate::history::{World, random_opts};
use crate::icept::{Icept, Mode, V};
use crate::report::{Run, Tier};
use crate::rng::{Rng, fnv};
use crate::tree::{self, GenParams};

/// Directory bytes with the timestamps of heads and tails removed.
fn normalised(root: &Path) -> BTreeMap<String, FsItem> {
    let mut m = fmt06::dir_bytes(root);
    for (p, item) in m.iter_mut() {
        if p.ends_with("BANDHEAD") || p.ends_with("BANDTAIL") {
            if let FsItem::File(b) = item {
                if let Ok(mut v) = serde_json::from_slice::<Value>(b) {
                    if let Some(o) = v.as_object_mut() {
                        o.remove("start_time");
                        o.remove("end_time");
                    }
                    *b = serde_json::to_vec(&v).unwrap();
                }
            }
        }
    }
    m
}

fn first_difference(a: &BTreeMap<String, FsItem>, b: &BTreeMap<String, FsItem>) -> Option<String> {
    for (k, v) in a {
        match b.get(k) {
            None => return Some(format!("{k} exists only in the first archive")),
            Some(w) if w != v => return Some(format!("{k} differs")),
            _ => {}
        }
    }
    b.keys().find(|k| !a.contains_key(*k)).map(|k| format!("{k} exists only in the second archive"))
}

/// An operation on a replica: its own runtime flavour and, for every second history, trace-level
/// diagnostics switched on (which the first copy never has).
fn replica<T>(traced: bool, workers: usize, f: impl FnOnce() -> T) -> T {
    cs::with_trace(traced, || cs::with_workers(workers, f))
}

fn one_history(run: &Run, case: u64) {
    let mut rng = Rng::for_case(run.seed, case, 22);
    let traced = case % 2 == 1;
    if traced {
        run.count("histories_whose_replicas_run_with_trace_diagnostics_on", 1);
    }
    let block = *rng.pick(&[7usize, 64, 1000]);
    let cap = *rng.pick(&[0u64, 10, 64]);
    let mut p = GenParams::small(block, cap);
    p.target_entries = 6 + rng.below(12) as usize;
    p.max_plain_size = 4096;
    let mut w = World::new("c17", &mut rng, p, run.seed ^ case);
    // replicas: Y on a multi-thread runtime with scheduling jitter, Z (thorough) with 8 workers
    let y = w.sc.join("arch_y");
    cs::create_archive(&y);
    let replicas: Vec<(std::path::PathBuf, usize)> = if run.tier == Tier::Thorough {
        let z = w.sc.join("arch_z");
        cs::create_archive(&z);
        vec![(y, 2), (z, 8)]
    } else {
        vec![(y, if case % 2 == 0 { 2 } else { 8 })]
    };
    let n_steps = 6 + rng.below(run.tier.pick(10, 14)) as usize;
    let mut descs = Vec::new();
    run.eval();
    let mut archive_ops = 0;
    for step in 0..n_steps {
        let roll = rng.below(100);
        let existing: Vec<u32> = w.raw(false).bands.keys().copied().collect();
        // the same operation on X (current-thread runtime) and on each replica
        let desc;
        enum OpK { Backup(cs::Opts), Killed(cs::Opts, usize), Delete(Vec<u32>), DeleteWithFailingRemove(Vec<u32>, String) }
        let op = if w.sources.is_empty() || roll < 30 {
            if w.steps_done > 0 && roll < 30 {
                let nm = 1 + rng.below(3) as usize;
                let r = w.mutate(&mut rng, nm);
                descs.push(r.desc);
                continue;
            }
            OpK::Backup(random_opts(&mut rng))
        } else if roll < 60 {
            OpK::Backup(random_opts(&mut rng))
        } else if roll < 72 {
            let o = random_opts(&mut rng);
            let writes = w.measure_trace(o).iter().filter(|e| e.verb == V::Write).count();
            OpK::Killed(o, rng.below(writes.max(1) as u64) as usize)
        } else if roll < 78 && !existing.is_empty() {
            // a delete during which the removal of one particular garbage block fails
            // (addressed by path, so it is the same fault in every replay)
            let mut ids: Vec<u32> = existing.iter().copied().filter(|_| rng.chance(1, 3)).collect();
            if ids.is_empty() {
                ids.push(*rng.pick(&existing));
            }
            let raw = w.raw(false);
            let kept: Vec<u32> = raw.bands.keys().copied().filter(|b| !ids.contains(b)).collect();
            let referenced = raw.referenced_blocks(kept);
            let garbage: Vec<String> = raw.blocks.iter().filter(|(n, _)| !referenced.contains(*n)).map(|(_, b)| b.relpath.clone()).collect();
            if garbage.len() >= 2 {
                let victim = rng.pick(&garbage).clone();
                OpK::DeleteWithFailingRemove(ids, victim)
            } else {
                OpK::Delete(ids)
            }
        } else if roll < 88 && !existing.is_empty() {
            let mut ids: Vec<u32> = existing.iter().copied().filter(|_| rng.chance(1, 3)).collect();
            if ids.is_empty() {
                ids.push(*rng.pick(&existing));
            }
            OpK::Delete(ids)
        } else {
            OpK::Delete(vec![])
        };
        archive_ops += 1;
        match &op {
            OpK::Backup(o) => {
                desc = format!("backup {}", o.label());
                let r = w.backup(*o);
                let ok = r.backup.as_ref().map(|b| b.ok()).unwrap_or(false);
                let moved = r.desc.contains("[first version moved");
                for (arch, workers) in &replicas {
                    let ic = Icept::with_jitter(arch, Mode::Jitter, rng.next_u64());
                    let out = replica(traced, *workers, || cs::backup(ic.transport(1), &w.src, *o, &[], None));
                    if moved {
                        // the world fast-forwarded its band numbering: do the same here
                        std::fs::rename(arch.join(fmt06::band_dirname(0)), arch.join(fmt06::band_dirname(w.first_band))).expect("rename band");
                    }
                    if out.ok() != ok {
                        run.violation("replica-outcome-differs", format!("{desc}: first {ok}, replica {}", out.describe()), json!({"case": case, "step": step, "history": descs}));
                        return;
                    }
                }
            }
            OpK::Killed(o, nth) => {
                desc = format!("backup {} killed before write #{nth}", o.label());
                let ic = Icept::new(&w.arch, Mode::CrashAtWrite { nth: *nth }, 0);
                let _ = cs::backup(ic.transport(1), &w.src, *o, &[], None);
                // keep the world's model in step
                let raw = w.raw(false);
                if let Some(b) = raw.bands.keys().max() {
                    if !w.sources.contains_key(b) && raw.bands[b].head_raw.is_some() {
                        w.sources.insert(*b, w.snap.clone());
                    }
                }
                w.steps_done += 1;
                for (arch, workers) in &replicas {
                    let ic = Icept::with_jitter(arch, Mode::CrashAtWrite { nth: *nth }, rng.next_u64());
                    let _ = replica(traced, *workers, || cs::backup(ic.transport(1), &w.src, *o, &[], None));
                }
                run.count("killed_backups_replayed", 1);
                // every second time the version just left behind also gets one of its index
                // hunks overwritten with garbage, identically in every copy: whatever the next
                // operations make of an unreadable hunk, they make the same of it everywhere
                let raw = w.raw(false);
                if let Some((id, b)) = raw.bands.iter().next_back() {
                    if !b.complete() && !b.hunks.is_empty() && rng.chance(1, 2) {
                        let ns: Vec<u32> = b.hunks.keys().copied().collect();
                        let n = *rng.pick(&ns);
                        let rel = format!("{}/{}", fmt06::band_dirname(*id), fmt06::hunk_relpath(n));
                        let junk: Vec<u8> = (0..40).map(|_| rng.below(256) as u8).collect();
                        let mut all = true;
                        for a in std::iter::once(&w.arch).chain(replicas.iter().map(|r| &r.0)) {
                            all &= a.join(&rel).is_file() && std::fs::write(a.join(&rel), &junk).is_ok();
                        }
                        if all {
                            descs.push(format!("{rel} overwritten with garbage in every copy"));
                            run.count("unreadable_hunks_planted_in_every_copy", 1);
                        }
                    }
                }
            }
            OpK::DeleteWithFailingRemove(ids, victim) => {
                desc = format!("delete {ids:?} while remove_file {} fails", &victim[..victim.len().min(20)]);
                let mode = || Mode::FailPath { verb: V::RemoveFile, path: victim.clone(), kind: conserve::transport::ErrorKind::PermissionDenied };
                let ic = Icept::new(&w.arch, mode(), 0);
                let out = cs::delete(ic.transport(2), &w.arch, ids, false, false);
                if out.ok() {
                    for id in ids {
                        w.sources.remove(id);
                    }
                }
                w.steps_done += 1;
                for (arch, workers) in &replicas {
                    let ic = Icept::with_jitter(arch, mode(), rng.next_u64());
                    let o2 = replica(traced, *workers, || cs::delete(ic.transport(2), arch, ids, false, false));
                    if o2.ok() != out.ok() {
                        run.violation("replica-outcome-differs", format!("{desc}: first {}, replica {}", out.describe(), o2.describe()), json!({"case": case, "step": step, "history": descs}));
                        return;
                    }
                }
                run.count("deletes_with_a_failing_removal_replayed", 1);
            }
            OpK::Delete(ids) => {
                desc = if ids.is_empty() { "gc".to_string() } else { format!("delete {ids:?}") };
                let r = w.delete(ids, false);
                let ok = r.delete.as_ref().map(|b| b.ok()).unwrap_or(false);
                for (arch, workers) in &replicas {
                    let ic = Icept::with_jitter(arch, Mode::Jitter, rng.next_u64());
                    let out = replica(traced, *workers, || cs::delete(ic.transport(2), arch, ids, false, false));
                    if out.ok() != ok {
                        run.violation("replica-outcome-differs", format!("{desc}: first {ok}, replica {}", out.describe()), json!({"case": case, "step": step, "history": descs}));
                        return;
                    }
                }
            }
        }
        descs.push(desc.clone());
        let x = normalised(&w.arch);
        for (arch, workers) in &replicas {
            run.count("archive_pairs_compared", 1);
            run.count("files_compared", x.len() as u64);
            if let Some(d) = first_difference(&x, &normalised(arch)) {
                let pc = d.split_whitespace().next().map(crate::props::c03::path_class).unwrap_or("other");
                run.violation(
                    format!("replay-differs:{pc}"),
                    format!("after {desc}: current-thread replay vs {workers}-worker replay with jitter: {d}"),
                    json!({"case": case, "step": step, "history": descs}),
                );
                return;
            }
        }
    }
    if archive_ops >= 3 {
        run.nontrivial(fnv(descs.join("|").as_bytes()));
    }
    run.count("histories_completed", 1);
    run.sample(|| json!({"case": case, "history": descs}));
}

/// Scale: the backup, changed backup and gc of a 10 040-file tree with one entry per hunk
/// (two index subdirectories) replayed into two archives on different runtimes.
fn many_hunks(run: &Run) {
    let w = crate::history::many_hunks_world("c17big", run.seed);
    let o = crate::history::MANY_HUNKS_OPTS;
    let arch2 = w.sc.join("arch2");
    cs::create_archive(&arch2);
    run.eval();
    let mut w = w;
    for step in ["backup", "change+backup", "gc"] {
        match step {
            "gc" => {
                let _ = cs::delete(cs::local(&w.arch), &w.arch, &[], false, false);
                let _ = cs::with_workers(4, || cs::delete(cs::local(&arch2), &arch2, &[], false, false));
            }
            _ => {
                if step == "change+backup" {
                    let mut spec = w.spec.clone();
                    for i in [3u32, 9_999, 10_000, 10_039] {
                        let mut n = crate::tree::Node::file(format!("changed {i}").into_bytes());
                        n.mtime_s = 1_700_000_000 + i as i64;
                        spec.insert(format!("/f{i:05}"), n);
                    }
                    spec.remove("/f10001");
                    w.set_spec(spec);
                }
                let _ = cs::backup(cs::local(&w.arch), &w.src, o, &[], None);
                let _ = cs::with_workers(4, || cs::backup(cs::local(&arch2), &w.src, o, &[], None));
            }
        }
        run.count("archive_pairs_compared", 1);
        if let Some(d) = first_difference(&normalised(&w.arch), &normalised(&arch2)) {
            run.violation("replay-differs:many-hunks", format!("[10 040-file tree, 1 entry per hunk] after {step}: current-thread replay vs 4-worker replay: {d}"), json!({"many_hunks": true}));
            return;
        }
    }
    run.count("many_hunks_replays_compared", 1);
}

/// The wall clock is not an input either: a file stamped slightly in the future is backed up
/// twice before the clock passes its mtime, and twice after, into two archives.
fn clock_straddle(run: &Run) {
    let sc = crate::scratch::Scratch::new("c17clock");
    let src = sc.join("src");
    let mut spec = tree::Snapshot::new();
    spec.insert("/".into(), tree::Node::dir());
    let now = std::time::SystemTime::now().duration_since(std::time::UNIX_EPOCH).unwrap().as_secs() as i64;
    for (name, dt) in [("/a", -1000i64), ("/b", 2), ("/c", -500), ("/d", 86_400)] {
        let mut n = tree::Node::file(format!("content of {name}").into_bytes());
        n.mtime_s = now + dt;
        n.mtime_ns = 250_000_000;
        spec.insert(name.into(), n);
    }
    tree::sync_to_disk(None, &spec, &src).expect("materialise");
    let o = cs::Opts { hunk: 100_000, block: 1000, cap: 64 };
    let replay_into = |arch: &std::path::Path, workers: usize| {
        cs::create_archive(arch);
        for _ in 0..2 {
            let _ = cs::with_workers(workers, || cs::backup(cs::local(arch), &src, o, &[], None));
        }
    };
    run.eval();
    let (a, b) = (sc.join("early"), sc.join("late"));
    replay_into(&a, 0);
    // until the clock has passed /b's mtime
    while (std::time::SystemTime::now().duration_since(std::time::UNIX_EPOCH).unwrap().as_millis() as i64) < (now + 3) * 1000 {
        std::thread::sleep(std::time::Duration::from_millis(100));
    }
    replay_into(&b, 4);
    run.count("archive_pairs_compared", 1);
    run.count("replays_straddling_a_file_mtime", 1);
    if let Some(d) = first_difference(&normalised(&a), &normalised(&b)) {
        run.violation(
            "replay-differs:wall-clock",
            format!("backup; backup of an untouched tree with a file stamped 2 s ahead, replayed before and after the clock passed that mtime: {d}"),
            json!({"clock_straddle": true}),
        );
    }
}

/// Delays the first write of a data block, once; changes nothing else.
struct Stall {
    millis: u64,
    done: std::sync::atomic::AtomicBool,
}

#[async_trait::async_trait]
impl conserve::transport::hooked::Interceptor for Stall {
    async fn before(&self, op: &conserve::transport::hooked::Op) -> conserve::transport::hooked::Decision {
        if crate::icept::V::of(op.verb) == crate::icept::V::Write && op.path.starts_with("d/") && !self.done.swap(true, std::sync::atomic::Ordering::SeqCst) {
            tokio::time::sleep(std::time::Duration::from_millis(self.millis)).await;
        }
        conserve::transport::hooked::Decision::Proceed
    }
    async fn after(&self, _op: &conserve::transport::hooked::Op, _result: Result<usize, conserve::transport::ErrorKind>) {}
}

/// How long storage operations take is not an input either: the same tree is backed up into an
/// archive on ordinary storage and into one whose first block write stalls (1.2 s in the quick
/// tier, 31 s in the thorough tier).
fn slow_storage(run: &Run, tier: Tier) {
    let sc = crate::scratch::Scratch::new("c17slow");
    let src = sc.join("src");
    let mut spec = tree::Snapshot::new();
    spec.insert("/".into(), tree::Node::dir());
    for (i, (name, len)) in [("/a", 300usize), ("/big", 150_000), ("/c", 300), ("/d", 20), ("/e", 70_000)].iter().enumerate() {
        let mut n = tree::Node::file(crate::rng::Rng::for_case(run.seed, i as u64, 1700).bytes(*len));
        n.mtime_s = 1_600_000_000 + i as i64;
        spec.insert((*name).into(), n);
    }
    tree::sync_to_disk(None, &spec, &src).expect("materialise");
    let o = cs::Opts { hunk: 100_000, block: 64 << 10, cap: 1 << 10 };
    let (a, b) = (sc.join("fast"), sc.join("slow"));
    cs::create_archive(&a);
    cs::create_archive(&b);
    run.eval();
    let _ = cs::backup(cs::local(&a), &src, o, &[], None);
    let millis = tier.pick(1_200, 31_000);
    let stall = std::sync::Arc::new(Stall { millis, done: std::sync::atomic::AtomicBool::new(false) });
    let t = conserve::transport::Transport::local(&b).with_interceptor(1, stall.clone() as std::sync::Arc<dyn conserve::transport::hooked::Interceptor>);
    let _ = cs::backup(t, &src, o, &[], None);
    run.count("archive_pairs_compared", 1);
    if stall.done.load(std::sync::atomic::Ordering::SeqCst) {
        run.count("replays_with_a_stalled_storage_operation", 1);
    }
    // and once on a runtime whose clock is virtual (tokio's paused time advances by itself while
    // everything waits): the first block write takes two hours of tokio time and no real time.
    // Timers inside the program see the two hours.
    {
        let c = sc.join("slow-virtual");
        cs::create_archive(&c);
        let stall = std::sync::Arc::new(Stall { millis: 2 * 3600 * 1000, done: std::sync::atomic::AtomicBool::new(false) });
        let t = conserve::transport::Transport::local(&c).with_interceptor(1, stall.clone() as std::sync::Arc<dyn conserve::transport::hooked::Interceptor>);
        let src2 = src.clone();
        let res = crate::report::guard(move || {
            let rt = tokio::runtime::Builder::new_current_thread().enable_all().start_paused(true).build().expect("runtime");
            rt.block_on(async move {
                let archive = conserve::Archive::open(t).await.map_err(cs::errstr)?;
                conserve::backup(&archive, &src2, &cs::backup_opts(o, &[], None), conserve::monitor::test::TestMonitor::arc()).await.map_err(cs::errstr)
            })
        });
        run.count("archive_pairs_compared", 1);
        if stall.done.load(std::sync::atomic::Ordering::SeqCst) {
            run.count("replays_with_a_storage_operation_taking_hours_of_virtual_time", 1);
        }
        if let Some(d) = first_difference(&normalised(&a), &normalised(&c)) {
            run.violation(
                "replay-differs:duration-of-storage-operations",
                format!("one backup on ordinary storage, one whose first block write took two hours on the program's (virtual) clock: {d}; the slow backup returned {:?}", res.map(|r| r.map(|s| (s.written_blocks, s.errors)))),
                json!({"slow_storage": true}),
            );
        }
    }
    if let Some(d) = first_difference(&normalised(&a), &normalised(&b)) {
        run.violation(
            "replay-differs:duration-of-storage-operations",
            format!("one backup on ordinary storage, one whose first block write took {millis} ms longer: {d}"),
            json!({"slow_storage": true}),
        );
    }
}

pub fn run(tier: Tier, replay: Option<Value>) -> i32 {
    cs::install_trace_sink();
    let run = Run::new("C17", "exploration", tier, replay.clone());
    if replay.as_ref().and_then(|r| r.get("many_hunks")).is_some() {
        many_hunks(&run);
        return run.finish("replay", &[], None, &[]);
    }
    if replay.as_ref().and_then(|r| r.get("clock_straddle")).is_some() {
        clock_straddle(&run);
        return run.finish("replay", &[], None, &[]);
    }
    if replay.as_ref().and_then(|r| r.get("slow_storage")).is_some() {
        slow_storage(&run, tier);
        return run.finish("replay", &[], None, &[]);
    }
    if replay.is_none() {
        super::alongside(&run, "the many-hunks and wall-clock replays", || { many_hunks(&run); clock_straddle(&run); slow_storage(&run, tier); }, || run.par_cases(tier.pick(100, 4000), super::threads().min(8), |c| one_history(&run, c)));
    } else {
        run.par_cases(tier.pick(100, 4000), super::threads().min(8), |c| one_history(&run, c));
    }
    run.count("trace_events_taken_by_the_sink", cs::TRACE_EVENTS.load(std::sync::atomic::Ordering::Relaxed));
    run.finish(
        "in every second history the replicas run with trace-level diagnostics switched on (a tracing subscriber that takes every event on the replicas' threads and discards it; the first copy never has one), and after every second killed backup one index hunk of the version it left is overwritten with the same garbage in every copy; histories over {tree mutations, backup(random options), backup killed before its n-th write, delete of a random subset (sometimes with the removal of one particular garbage block failing, a fault addressed by path), gc} are executed in lock-step from the same on-disk source states into a first archive (current-thread tokio runtime) and into one (thorough: two) replica archives on multi-thread runtimes with 2 or 8 workers and random yields/sleeps before every storage operation; after every step the complete directory trees must be byte-identical, BANDHEAD/BANDTAIL compared as JSON without start_time/end_time. Within one process every HashMap instance already gets its own random seed, so hash-order dependence shows up without a second process. One history (backup, change, backup, gc) on a 10 040-file tree with one entry per hunk is replayed the same way. One tree with a file stamped 2 s ahead of the clock is backed up twice before and twice after the clock passes that mtime (the wall clock is not an input). One tree is backed up on ordinary storage and on storage whose first block write stalls for 1.2 s (quick) / 31 s (thorough): how long storage takes is not an input either; a third copy is made on a runtime with a virtual clock, where that write takes two hours of the program's timer time. Distinct = history text with >= 3 archive operations.",
        &["timestamps in heads and tails are the only allowed difference", "a separate-process replay was not added (per-instance hash seeds make it redundant)"],
        None,
        &[("archive_pairs_compared", 100), ("killed_backups_replayed", 3), ("histories_completed", 10), ("trace_events_taken_by_the_sink", 100), ("unreadable_hunks_planted_in_every_copy", 1), ("many_hunks_replays_compared", 1), ("replays_straddling_a_file_mtime", 1), ("replays_with_a_stalled_storage_operation", 1), ("replays_with_a_storage_operation_taking_hours_of_virtual_time", 1)],
    )
}
