//! C05 — deleting versions and collecting garbage never harm what is kept.

use std::collections::{BTreeMap, BTreeSet};
use std::path::{Path, PathBuf};

use serde_json::{Value, json};

use crate::cs;
use crate::fmt06::{self, FsItem};
use crate::history::{World, random_opts};
use crate::icept::{Ev, Icept, KINDS, Mode, V, kind_name};
use crate::oracle::restore_and_compare;
use crate::props::c03::path_class;
use crate::report::{Run, Tier, panic_site};
use crate::rng::{Rng, fnv};
use crate::tree::{CmpOpts, GenParams, Snapshot};

pub struct Arch {
    pub world: World,
    pub bands: Vec<u32>,
    pub complete: BTreeSet<u32>,
    pub desc: Vec<String>,
}

/// An archive from a short history: several versions sharing blocks, garbage blocks, possibly an
/// incomplete band in the middle; the newest band is complete so that deletes are accepted.
pub fn build_archive(seed: u64, case: u64, tag: &str) -> Arch {
    let mut rng = Rng::for_case(seed, case, 5);
    let block = *rng.pick(&[16usize, 64, 200]);
    let cap = *rng.pick(&[10u64, 40, 64]);
    let mut p = GenParams::small(block, cap);
    p.target_entries = 7 + rng.below(6) as usize;
    p.max_plain_size = 600;
    p.hostile_mtimes = false;
    p.hostile_modes = false;
    let mut w = World::new(tag, &mut rng, p, seed ^ (case << 12));
    let mut desc = Vec::new();
    let n_versions = 2 + rng.below(3) as usize;
    let interrupted_at = if rng.chance(1, 2) { Some(rng.below(n_versions as u64) as usize) } else { None };
    for v in 0..n_versions {
        let o = cs::Opts { hunk: *rng.pick(&[2usize, 3, 100_000]), block, cap };
        if Some(v) == interrupted_at && v > 0 {
            let n = w.measure_backup(o);
            let k = n / 2 + rng.below((n / 2).max(1) as u64) as usize;
            let r = w.interrupted_backup(o, k.min(n - 1), n, false);
            desc.push(r.desc);
            w.mutate(&mut rng, 2);
        }
        let r = w.backup(o);
        assert!(r.backup.as_ref().unwrap().ok(), "history backup failed: {}", r.backup.unwrap().describe());
        desc.push(r.desc);
        let m = w.mutate(&mut rng, 3);
        desc.push(m.desc);
    }
    // garbage: remove one band directory the way a delete killed after its first phase leaves it
    if rng.chance(1, 2) {
        let o = random_opts(&mut rng);
        let r = w.backup(cs::Opts { block, cap, ..o });
        assert!(r.backup.as_ref().unwrap().ok());
        let id = r.new_band.unwrap();
        let r2 = w.backup(cs::Opts { block, cap, ..o });
        assert!(r2.backup.as_ref().unwrap().ok());
        std::fs::remove_dir_all(w.arch.join(fmt06::band_dirname(id))).unwrap();
        w.sources.remove(&id);
        desc.push(format!("band b{id:04} removed by hand (garbage blocks left)"));
    }
    let raw = w.raw(false);
    let bands: Vec<u32> = raw.bands.keys().copied().collect();
    let complete: BTreeSet<u32> = raw.complete_bands().into_iter().collect();
    Arch { world: w, bands, complete, desc }
}

fn subsets(bands: &[u32], rng: &mut Rng) -> Vec<Vec<u32>> {
    let mut v = subsets_ascending(bands, rng);
    // the order in which versions are named is the caller's: name them in a seeded random
    // order (and, for two or more, also newest first)
    let mut extra = Vec::new();
    for s in v.iter_mut() {
        if s.len() >= 2 {
            let mut rev = s.clone();
            rev.reverse();
            extra.push(rev);
            rng.shuffle(s);
        }
    }
    v.extend(extra);
    v
}

fn subsets_ascending(bands: &[u32], rng: &mut Rng) -> Vec<Vec<u32>> {
    if bands.len() <= 4 {
        (0..(1u32 << bands.len()))
            .map(|m| bands.iter().enumerate().filter(|(i, _)| m & (1 << i) != 0).map(|(_, b)| *b).collect())
            .collect()
    } else {
        let mut v: Vec<Vec<u32>> = vec![vec![], bands.to_vec()];
        while v.len() < 8 {
            let s: Vec<u32> = bands.iter().copied().filter(|_| rng.chance(1, 2)).collect();
            if !v.contains(&s) {
                v.push(s);
            }
        }
        v
    }
}

struct DelRun {
    arch: PathBuf,
    out: cs::Outcome<conserve::DeleteStats>,
    log: Vec<Ev>,
    frozen: bool,
    at: Option<Ev>,
}

fn run_delete(a: &Arch, d: &[u32], dry: bool, mode: Mode) -> DelRun {
    let arch = a.world.sc.fresh("del");
    fmt06::copy_dir(&a.world.arch, &arch);
    // room for walks down the band numbers (linear in the band id) on top of the fixed budget
    let max_id = fmt06::read_archive(&arch, false).bands.keys().max().copied().unwrap_or(0) as usize;
    let ic = Icept::with_budget(&arch, mode, 0, 200_000 + 30 * (max_id + 2));
    let out = cs::delete(ic.transport(2), &arch, d, dry, false);
    let log = ic.log();
    let at = log.iter().find(|e| e.injected).cloned();
    DelRun { arch, out, frozen: ic.frozen(), at, log }
}

/// Kept complete versions restore exactly and no kept band has a dangling reference.
fn kept_intact(arch: &Path, a: &Arch, d: &[u32], sc: &crate::scratch::Scratch) -> Result<u64, (String, String)> {
    let raw = fmt06::read_archive(arch, true);
    let mut n = 0;
    for b in &a.bands {
        if !raw.bands.contains_key(b) {
            if d.contains(b) {
                continue;
            }
            return Err(("kept-band-removed".into(), format!("b{b:04} is gone")));
        }
        // a version that was to be deleted but is still there (the delete was killed or gave
        // up) is a remaining version like any other: still listed, so it must still restore
        let doomed = d.contains(b);
        if doomed && !(raw.bands[b].has_head() && raw.bands[b].complete()) {
            continue;
        }
        let dang = raw.dangling_refs(*b);
        if !dang.is_empty() {
            return Err((
                if doomed { "still-listed-band-to-be-deleted-has-dangling-reference" } else { "kept-band-has-dangling-reference" }.into(),
                format!("b{b:04}: {:?}", &dang[..dang.len().min(3)]),
            ));
        }
        if a.complete.contains(b) {
            if let Err(m) = restore_and_compare(arch, Some(*b), &a.world.sources[b], sc, &CmpOpts::default()) {
                return Err((
                    format!("{}:{}", if doomed { "still-listed-version-to-be-deleted" } else { "kept-version" }, m.class),
                    format!("b{b:04}: {}", m.detail),
                ));
            }
            n += 1;
        }
    }
    Ok(n)
}

fn band_files(m: &BTreeMap<String, FsItem>, b: u32) -> BTreeMap<String, FsItem> {
    let pre = fmt06::band_dirname(b);
    m.iter()
        .filter(|(k, _)| k.as_str() == pre || k.starts_with(&format!("{pre}/")))
        .map(|(k, v)| (k.clone(), v.clone()))
        .collect()
}

/// The oracle for a delete that ran to its end without faults.
fn judge_real_delete(run: &Run, a: &Arch, d: &[u32], r: &DelRun, before: &BTreeMap<String, FsItem>, replay: &Value) -> bool {
        if let Some(p) = &r.out.panic {
            run.violation(format!("delete-panic:{}", panic_site(p)), p.clone(), replay.clone());
            return false;
        }
        if !r.out.ok() {
            run.violation("delete-err", format!("fault-free delete {d:?} failed: {}", r.out.describe()), replay.clone());
            return false;
        }
        let after = fmt06::dir_bytes(&r.arch);
        for b in &a.bands {
            let bf = band_files(&after, *b);
            if d.contains(b) {
                if !bf.is_empty() {
                    run.violation("deleted-band-still-present", format!("b{b:04}"), replay.clone());
                    return false;
                }
            } else if bf != band_files(before, *b) {
                run.violation("kept-band-altered", format!("b{b:04}"), replay.clone());
                return false;
            }
        }
        if after.contains_key("GC_LOCK") {
            run.violation("lock-left-behind", "GC_LOCK exists after a completed delete", replay.clone());
            return false;
        }
        let raw = fmt06::read_archive(&r.arch, false);
        let referenced = raw.referenced_blocks(raw.bands.keys().copied());
        let present: BTreeSet<String> = raw.blocks.keys().cloned().collect();
        if let Some(lost) = referenced.difference(&present).next() {
            run.violation("referenced-block-removed", format!("block {} is referenced by a kept band but gone", &lost[..12]), replay.clone());
            return false;
        }
        if let Some(extra) = present.difference(&referenced).next() {
            run.violation("unreferenced-block-remains", format!("block {} is referenced by nothing but still there", &extra[..12]), replay.clone());
            return false;
        }
        let stats = r.out.value().unwrap();
        run.count("blocks_deleted", stats.deleted_block_count as u64);
        if stats.deleted_block_count > 0 {
            run.count("deletes_that_removed_blocks", 1);
        }
        if present.len() > 0 && stats.deleted_block_count > 0 {
            run.count("deletes_with_shared_blocks_kept", 1);
        }
        match kept_intact(&r.arch, a, d, &a.world.sc) {
            Ok(n) => run.count("kept_versions_restored", n),
            Err((c, det)) => {
                run.violation(format!("after-delete:{c}"), det, replay.clone());
                return false;
            }
        }
        true
}

fn one_subset(run: &Run, a: &Arch, case: u64, si: usize, d: &[u32]) {
    let before = fmt06::dir_bytes(&a.world.arch);
    let base_replay = json!({"case": case, "subset": si, "delete": d, "history": a.desc});
    // dry run: nothing changes
    {
        let r = run_delete(a, d, true, Mode::Log);
        run.eval();
        run.count("dry_runs", 1);
        if let Some(p) = &r.out.panic {
            run.violation(format!("dry-run-panic:{}", panic_site(p)), p.clone(), base_replay.clone());
        } else if fmt06::dir_bytes(&r.arch) != before {
            run.violation("dry-run-changed-archive", format!("delete {d:?} --dry-run changed the archive"), base_replay.clone());
        }
        crate::scratch::rm(&r.arch);
    }
    // a gc lock that is already there (another collector at work, or a stale one): refuse, and
    // change nothing - in particular leave that lock alone; tried with process-exit semantics
    // and with a caller that keeps its runtime alive
    for (dry, linger) in [(true, false), (false, true)] {
        let arch = a.world.sc.fresh("locked");
        fmt06::copy_dir(&a.world.arch, &arch);
        std::fs::write(arch.join("GC_LOCK"), b"{}\n").unwrap();
        let before_locked = fmt06::dir_bytes(&arch);
        let run_it = || cs::delete(cs::local(&arch), &arch, d, dry, false);
        let out = if linger { cs::with_linger(run_it) } else { run_it() };
        run.eval();
        run.count("refusals_with_lock_held", 1);
        let rp = json!({"case": case, "subset": si, "delete": d, "lock_held": true, "dry_run": dry});
        if out.ok() {
            run.violation("delete-not-refused-while-locked", format!("delete {d:?} dry={dry} returned Ok although GC_LOCK exists"), rp);
        } else if fmt06::dir_bytes(&arch) != before_locked {
            let gone = !arch.join("GC_LOCK").exists();
            run.violation(
                if gone { "refused-delete-removed-foreign-lock" } else { "refused-delete-changed-archive" },
                format!("delete {d:?} dry={dry} was refused ({}) but changed the archive{}", out.describe(), if gone { ": the GC_LOCK it did not own is gone" } else { "" }),
                rp,
            );
        }
        crate::scratch::rm(&arch);
    }
    // the real, fault-free delete
    let r = run_delete(a, d, false, Mode::Log);
    run.eval();
    run.count("real_deletes", 1);
    let trace = r.log.clone();
    let ok = judge_real_delete(run, a, d, &r, &before, &base_replay);
    crate::scratch::rm(&r.arch);
    if !ok {
        return;
    }
    run.nontrivial(fnv(format!("{:?}|{:?}", a.desc, d).as_bytes()));
    let rp = run.replay.clone();
    let only_mode = rp.as_ref().and_then(|r| r.get("mode")).and_then(|m| m.as_str()).map(String::from);
    let only_k = rp.as_ref().and_then(|r| r.get("k")).and_then(|m| m.as_u64()).map(|k| k as usize);
    let only_kind = rp.as_ref().and_then(|r| r.get("kind")).and_then(|m| m.as_str()).map(String::from);
    // killed at every point
    for k in 0..=trace.len() {
        if only_mode.as_deref().map(|m| m != "crash").unwrap_or(false) || (only_k.is_some() && only_k != Some(k)) {
            continue;
        }
        if run.out_of_time() {
            run.count("points_skipped_by_time_budget", 1);
            continue;
        }
        let r = run_delete(a, d, false, Mode::CrashAt { k, torn: false });
        run.eval();
        run.count("crash_points", 1);
        let at = r.at.as_ref().map(|e| format!("{}:{}", e.verb.name(), path_class(&e.path))).unwrap_or("end".into());
        run.observe("crash_classes", at.clone());
        let replay = json!({"case": case, "subset": si, "delete": d, "mode": "crash", "k": k, "at": r.at.as_ref().map(|e| e.brief())});
        if let Some(p) = &r.out.panic {
            if !r.frozen {
                run.violation(format!("delete-panic-before-kill:{}", panic_site(p)), p.clone(), replay.clone());
            }
        }
        match kept_intact(&r.arch, a, d, &a.world.sc) {
            Ok(n) => run.count("kept_versions_restored_after_crash", n),
            Err((c, det)) => run.violation(format!("killed-delete:{c}@{at}"), format!("delete {d:?} killed before op {k}: {det}"), replay),
        }
        crate::scratch::rm(&r.arch);
    }
    // every single failing read / list / metadata
    for e in trace.iter().filter(|e| matches!(e.verb, V::Read | V::ListDir | V::Metadata)) {
        let k = e.idx;
        if only_mode.as_deref().map(|m| m != "fail").unwrap_or(false) || (only_k.is_some() && only_k != Some(k)) {
            continue;
        }
        for kind in KINDS {
            if only_kind.is_some() && only_kind.as_deref() != Some(kind_name(kind)) {
                continue;
            }
            if run.out_of_time() {
                run.count("points_skipped_by_time_budget", 1);
                continue;
            }
            let r = run_delete(a, d, false, Mode::FailAt { k, kind });
            run.eval();
            run.count("read_faults", 1);
            let at = format!("{}:{}:{}", e.verb.name(), path_class(&e.path), kind_name(kind));
            run.observe("fault_classes", at.clone());
            let replay = json!({"case": case, "subset": si, "delete": d, "mode": "fail", "k": k, "kind": kind_name(kind), "at": e.brief()});
            if let Some(p) = &r.out.panic {
                run.violation(format!("delete-panic:{}@{at}", panic_site(p)), p.clone(), replay.clone());
                crate::scratch::rm(&r.arch);
                continue;
            }
            if r.out.ok() {
                run.count("read_faults_delete_still_ok", 1);
            } else {
                run.count("read_faults_delete_refused", 1);
            }
            match kept_intact(&r.arch, a, d, &a.world.sc) {
                Ok(n) => run.count("kept_versions_restored_after_fault", n),
                Err((c, det)) => run.violation(
                    format!("read-fault:{c}@{at}"),
                    format!("delete {d:?} with {at} at op {k} (delete returned {}): {det}", r.out.describe()),
                    replay,
                ),
            }
            crate::scratch::rm(&r.arch);
        }
    }
    // a persistent fault: every read / listing / probe of one path fails, however often it is
    // tried again (an unreadable directory, a file that stays locked)
    if only_mode.is_none() || only_mode.as_deref() == Some("persistent") {
        let mut targets: Vec<(V, String)> = trace.iter().filter(|e| matches!(e.verb, V::Read | V::ListDir | V::Metadata)).map(|e| (e.verb, e.path.clone())).collect();
        targets.sort();
        targets.dedup();
        let only_path = rp.as_ref().and_then(|r| r.get("path")).and_then(|m| m.as_str()).map(String::from);
        for (verb, path) in targets {
            if only_path.is_some() && only_path.as_deref() != Some(path.as_str()) {
                continue;
            }
            for kind in [conserve::transport::ErrorKind::Other, conserve::transport::ErrorKind::PermissionDenied].into_iter().take(run.tier.pick(1, 2)) {
                if run.out_of_time() {
                    run.count("points_skipped_by_time_budget", 1);
                    continue;
                }
                let r = run_delete(a, d, false, Mode::FailPath { verb, path: path.clone(), kind });
                run.eval();
                run.count("persistent_read_faults", 1);
                let at = format!("{}:{}:{}:persistent", verb.name(), path_class(&path), kind_name(kind));
                let replay = json!({"case": case, "subset": si, "delete": d, "mode": "persistent", "path": path, "kind": kind_name(kind)});
                if let Some(p) = &r.out.panic {
                    run.violation(format!("delete-panic:{}@{at}", panic_site(p)), p.clone(), replay.clone());
                    crate::scratch::rm(&r.arch);
                    continue;
                }
                match kept_intact(&r.arch, a, d, &a.world.sc) {
                    Ok(n) => run.count("kept_versions_restored_after_fault", n),
                    Err((c, det)) => run.violation(
                        format!("read-fault:{c}@{at}"),
                        format!("delete {d:?} with every {} of {path:?} failing (delete returned {}): {det}", verb.name(), r.out.describe()),
                        replay,
                    ),
                }
                crate::scratch::rm(&r.arch);
            }
        }
    }
}

fn snapshot_sig(s: &BTreeMap<u32, Snapshot>) -> usize {
    s.len()
}

/// Scale: versions of more than 10 000 index hunks (two hunk subdirectories): gc, delete of
/// the newer and of the older version, each fault-free, judged like any other delete.
fn many_hunks(run: &Run) {
    let mut w = crate::history::many_hunks_world("c05big", run.seed);
    let o = crate::history::MANY_HUNKS_OPTS;
    let mut desc = Vec::new();
    let r = w.backup(o);
    assert!(r.backup.as_ref().unwrap().clean(), "scale backup failed");
    desc.push(format!("[10 040-file tree, 1 entry per hunk] {}", r.desc));
    let mut spec = w.spec.clone();
    for i in [3u32, 4_999, 9_999, 10_000, 10_039] {
        let mut n = crate::tree::Node::file(format!("changed {i}").into_bytes());
        n.mtime_s = 1_700_000_000 + i as i64;
        spec.insert(format!("/f{i:05}"), n);
    }
    spec.remove("/f00007");
    spec.remove("/f10001");
    w.set_spec(spec);
    let r = w.backup(o);
    desc.push(r.desc.clone());
    if !r.backup.as_ref().unwrap().clean() {
        run.violation("many-hunks-backup-not-clean", r.backup.as_ref().unwrap().describe(), json!({"many_hunks": true}));
        return;
    }
    let raw = w.raw(false);
    let bands: Vec<u32> = raw.bands.keys().copied().collect();
    let complete: BTreeSet<u32> = raw.complete_bands().into_iter().collect();
    let a = Arch { world: w, bands: bands.clone(), complete, desc };
    let before = fmt06::dir_bytes(&a.world.arch);
    for d in [vec![], vec![bands[1]], vec![bands[0]]] {
        let replay = json!({"many_hunks": true, "delete": d, "history": a.desc});
        let r = run_delete(&a, &d, false, Mode::Log);
        run.eval();
        run.count("real_deletes", 1);
        run.count("deletes_on_versions_with_more_than_10000_hunks", 1);
        let ok = judge_real_delete(run, &a, &d, &r, &before, &replay);
        crate::scratch::rm(&r.arch);
        if !ok {
            return;
        }
    }
}

/// Archives written by earlier releases (the repository's testdata: 0.6.0 ... 0.6.17; up to
/// 0.6.3 the band tail carries no hunk count): a new version is added, deleted again (dry, then
/// for real), then gc runs; the old version must stay as it was.
fn old_format_archives(run: &Run) {
    let base = Path::new("/repo/testdata/archive/minimal");
    let Ok(rd) = std::fs::read_dir(base) else {
        run.count("old_format_testdata_missing", 1);
        return;
    };
    let mut versions: Vec<PathBuf> = rd.flatten().map(|e| e.path()).filter(|p| p.is_dir()).collect();
    versions.sort();
    let sc = crate::scratch::Scratch::new("c05old");
    let src = sc.join("src");
    let mut spec = Snapshot::new();
    spec.insert("/".into(), crate::tree::Node::dir());
    spec.insert("/unrelated".into(), crate::tree::Node::file(b"content that the old version does not have".to_vec()));
    spec.insert("/unrelated2".into(), crate::tree::Node::file(vec![7u8; 3000]));
    crate::tree::sync_to_disk(None, &spec, &src).expect("materialise");
    for v in versions {
        let name = v.file_name().unwrap().to_string_lossy().into_owned();
        let arch = sc.join(&format!("arch-{name}"));
        fmt06::copy_dir(&v, &arch);
        run.eval();
        let replay = json!({"old_format": name});
        let restore_b0 = |what: &str| -> Option<Snapshot> {
            let dest = sc.fresh("old");
            let r = cs::restore(cs::local(&arch), Some(0), &dest, None, &[], false);
            if !r.clean() {
                run.violation("old-format:kept-version-no-longer-restores", format!("archive written by {name}, {what}: restore of b0000 {}", r.describe()), replay.clone());
                return None;
            }
            let s = crate::tree::snapshot(&dest).ok();
            crate::scratch::rm(&dest);
            s
        };
        let Some(expected) = restore_b0("untouched") else { continue };
        let blocks_before: BTreeSet<String> = fmt06::dir_bytes(&arch).keys().filter(|k| path_class(k) == "block").cloned().collect();
        let b = cs::backup(cs::local(&arch), &src, cs::Opts { hunk: 100_000, block: 1000, cap: 64 }, &[], None);
        if !b.clean() {
            run.violation("old-format:backup-failed", format!("archive written by {name}: {}", b.describe()), replay);
            continue;
        }
        let with_new = fmt06::dir_bytes(&arch);
        for (what, ids, dry) in [("delete of the new version (dry run)", vec![1u32], true), ("delete of the new version", vec![1u32], false), ("gc", vec![], false)] {
            let d = cs::delete(cs::local(&arch), &arch, &ids, dry, false);
            run.count("real_deletes", (!dry) as u64);
            run.count("deletes_on_archives_written_by_earlier_releases", 1);
            if !d.ok() {
                run.violation("old-format:delete-err", format!("archive written by {name}, {what}: {}", d.describe()), replay.clone());
                break;
            }
            let now = fmt06::dir_bytes(&arch);
            if dry && now != with_new {
                run.violation("dry-run-changed-archive", format!("archive written by {name}, {what}"), replay.clone());
                break;
            }
            let blocks_now: BTreeSet<String> = now.keys().filter(|k| path_class(k) == "block").cloned().collect();
            if let Some(lost) = blocks_before.difference(&blocks_now).next() {
                run.violation("old-format:block-of-kept-version-removed", format!("archive written by {name}, {what}: {lost} was there before the new version was added and is gone"), replay.clone());
                break;
            }
            if !dry && blocks_now != blocks_before {
                run.violation("unreferenced-block-remains", format!("archive written by {name}, {what}: {:?}", blocks_now.difference(&blocks_before).next()), replay.clone());
                break;
            }
            match restore_b0(what) {
                Some(s) if s == expected => run.count("kept_versions_restored", 1),
                Some(_) => {
                    run.violation("old-format:kept-version-restores-differently", format!("archive written by {name}, after {what}"), replay.clone());
                    break;
                }
                None => break,
            }
        }
    }
}

pub fn run(tier: Tier, replay: Option<Value>) -> i32 {
    let run = Run::new("C05", "fault_enumeration", tier, replay.clone());
    let n_arch = tier.pick(5u64, 150);
    let scale_replay = replay.as_ref().and_then(|r| r.get("many_hunks")).is_some();
    if scale_replay {
        super::alongside(&run, "the many-hunks deletes", || many_hunks(&run), || ());
        return run.finish("replay", &[], None, &[]);
    }
    if replay.is_none() || replay.as_ref().and_then(|r| r.get("old_format")).is_some() {
        old_format_archives(&run);
        if replay.is_some() {
            return run.finish("replay", &[], None, &[]);
        }
    }
    let bulk = || {
    // build archives first (cheap), then shard (archive, subset) pairs
    let mut work: Vec<(u64, usize)> = Vec::new();
    let mut archs: BTreeMap<u64, (Arch, Vec<Vec<u32>>)> = BTreeMap::new();
    for case in 0..n_arch {
        if let Some(r) = &replay {
            if r.get("case").and_then(|c| c.as_u64()) != Some(case) {
                continue;
            }
        }
        let a = build_archive(run.seed, case, "c05");
        let mut rng = Rng::for_case(run.seed, case, 6);
        let subs = subsets(&a.bands, &mut rng);
        run.count("archives", 1);
        run.count("archive_bands", a.bands.len() as u64);
        let _ = snapshot_sig(&a.world.sources);
        run.sample(|| json!({"case": case, "bands": a.bands, "complete": a.complete, "history": a.desc}));
        for si in 0..subs.len() {
            if let Some(r) = &replay {
                if r.get("subset").and_then(|c| c.as_u64()) != Some(si as u64) {
                    continue;
                }
            }
            work.push((case, si));
        }
        archs.insert(case, (a, subs));
    }
    let next = std::sync::atomic::AtomicUsize::new(0);
    std::thread::scope(|s| {
        for _ in 0..super::threads() {
            s.spawn(|| {
                loop {
                    let i = next.fetch_add(1, std::sync::atomic::Ordering::SeqCst);
                    if i >= work.len() {
                        break;
                    }
                    let (case, si) = work[i];
                    let (a, subs) = &archs[&case];
                    if let Err(msg) = crate::report::guard(|| one_subset(&run, a, case, si, &subs[si])) {
                        run.inconclusive(format!("harness error in case {case} subset {si}: {msg}"));
                    }
                }
            });
        }
    });
    };
    if replay.is_none() {
        // started first and run alongside: the soft time budget never skips it
        super::alongside(&run, "the many-hunks deletes", || many_hunks(&run), bulk);
    } else {
        bulk();
    }
    run.finish(
        "(first: the repository's archives written by releases 0.6.0-0.6.17 get a new version, which is deleted again -- dry, real -- and a gc: their old version keeps its blocks and restores as before; gc, delete of the newer and of the older of two versions of a 10 040-file tree with one entry per hunk -- hunks in two index subdirectories -- judged like every other fault-free delete) archives from short histories (2-4 versions sharing combined blocks, optionally an interrupted band in the middle and garbage blocks from a hand-removed band); for each, every subset D of the bands when <= 4 (else 8 incl. none and all), named in a seeded random order and, for two or more versions, also newest first x {dry run, real}; with a GC_LOCK already present every delete must be refused and leave the archive (that lock included) byte-identical. Real runs: the fault-free delete must remove exactly D, leave other band directories byte-identical, leave exactly the blocks referenced by the remaining bands' own hunks (independent scan) and every kept complete version must restore exactly; then EVERY crash point k of the delete's trace and EVERY read/list_dir/metadata operation failing with each of 4 kinds, and every path read, listed or probed failing persistently (every attempt, 2 kinds): kept complete versions still restore exactly and no kept band has a dangling reference. Distinct = (history, D).",
        &["kill = no later storage effect", "E2 reader trusted"],
        Some(true),
        &[("real_deletes", 10), ("crash_points", 100), ("read_faults", 100), ("persistent_read_faults", 50), ("deletes_that_removed_blocks", 3), ("kept_versions_restored_after_fault", 50), ("deletes_on_versions_with_more_than_10000_hunks", 3), ("deletes_on_archives_written_by_earlier_releases", 6)],
    )
}
