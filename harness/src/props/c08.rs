//! C08 — listing a version follows the stitching rule and is strictly ordered.
//! Archives are written by the harness's own format-0.6 writer, not by conserve.

use std::path::Path;

use serde_json::{Value, json};

use crate::cs;
use crate::fmt06::{self, symlink_entry};
use crate::icept::{Icept, Mode};
use crate::oracle::{GlobModel, apath_cmp, first_disorder, stitch_model};
use crate::report::{Run, Tier, panic_site};
use crate::rng::{Rng, fnv};
use crate::scratch::Scratch;
use crate::tree;

#[derive(Clone, Debug, PartialEq, Eq)]
pub enum BandState {
    Absent,
    Present { hunks: Vec<Vec<usize>>, complete: bool },
    /// A band directory without a BANDHEAD: what a killed band creation (no tail, nothing
    /// else) or a killed removal of a version (everything but the head still there) leaves.
    /// It is not an existing version.
    Headless { hunks: Vec<Vec<usize>>, tail: bool },
    /// A band whose BANDHEAD is an empty file (a backup killed while writing it): it exists
    /// but cannot be opened.
    TornHead { hunks: Vec<Vec<usize>>, tail: bool },
}

/// All states of one band over `p` paths (indices into a sorted path list).
pub fn band_states(p: usize) -> Vec<BandState> {
    let mut v = vec![BandState::Absent];
    for mask in 0u32..(1 << p) {
        let subset: Vec<usize> = (0..p).filter(|i| mask & (1 << i) != 0).collect();
        let m = subset.len();
        let layouts: Vec<Vec<Vec<usize>>> = if m == 0 {
            vec![vec![]]
        } else {
            // compositions: a cut after element i for each bit of c
            (0u32..(1 << (m - 1)))
                .map(|c| {
                    let mut hunks = vec![vec![subset[0]]];
                    for i in 1..m {
                        if c & (1 << (i - 1)) != 0 {
                            hunks.push(vec![subset[i]]);
                        } else {
                            hunks.last_mut().unwrap().push(subset[i]);
                        }
                    }
                    hunks
                })
                .collect()
        };
        for l in layouts {
            for complete in [true, false] {
                v.push(BandState::Present { hunks: l.clone(), complete });
            }
        }
    }
    v
}

fn write_archive(root: &Path, paths: &[String], bands: &[BandState]) {
    let _ = std::fs::remove_dir_all(root);
    fmt06::write_archive_header(root);
    for (id, b) in bands.iter().enumerate() {
        let (hunks, complete, headless) = match b {
            BandState::Absent => continue,
            BandState::Present { hunks, complete } => (hunks, *complete, false),
            BandState::Headless { hunks, tail } => (hunks, *tail, true),
            BandState::TornHead { hunks, tail } => (hunks, *tail, false),
        };
        {
            let hv: Vec<Vec<Value>> = hunks
                .iter()
                .map(|h| {
                    h.iter()
                        .map(|pi| symlink_entry(&paths[*pi], &format!("b{id}:{}", paths[*pi])))
                        .collect()
                })
                .collect();
            fmt06::write_band(root, id as u32, &hv, complete);
            if matches!(b, BandState::TornHead { .. }) {
                std::fs::write(root.join(fmt06::band_dirname(id as u32)).join("BANDHEAD"), b"").unwrap();
            }
            if headless {
                std::fs::remove_file(root.join(fmt06::band_dirname(id as u32)).join("BANDHEAD")).unwrap();
            }
        }
    }
}

fn describe(bands: &[BandState], paths: &[String]) -> Value {
    json!(bands
        .iter()
        .enumerate()
        .map(|(i, b)| match b {
            BandState::Absent => json!({"band": i, "state": "absent"}),
            BandState::Present { hunks, complete } => json!({"band": i, "complete": complete,
                "hunks": hunks.iter().map(|h| h.iter().map(|p| paths[*p].clone()).collect::<Vec<_>>()).collect::<Vec<_>>()}),
            BandState::TornHead { hunks, tail } => json!({"band": i, "state": "empty BANDHEAD file", "tail": tail,
                "hunks": hunks.iter().map(|h| h.iter().map(|p| paths[*p].clone()).collect::<Vec<_>>()).collect::<Vec<_>>()}),
            BandState::Headless { hunks, tail } => json!({"band": i, "state": "directory without BANDHEAD", "tail": tail,
                "hunks": hunks.iter().map(|h| h.iter().map(|p| paths[*p].clone()).collect::<Vec<_>>()).collect::<Vec<_>>()}),
        })
        .collect::<Vec<_>>())
}

const SUBTREES: &[&str] = &["/a", "/ab", "/a/x", "/nonexistent", "/é"];
const EXCLUDES: &[&[&str]] = &[&["/a"], &["x"], &["/a*"], &["*b"]];

/// Check every listable version of the archive at `root`. Returns false on violation.
fn check_archive(run: &Run, root: &Path, n_bands: u32, with_filters: bool, replay: &Value, what: &dyn Fn() -> Value) -> bool {
    check_archive_budget(run, root, n_bands, with_filters, replay, what, 50_000)
}

fn check_archive_budget(run: &Run, root: &Path, n_bands: u32, with_filters: bool, replay: &Value, what: &dyn Fn() -> Value, budget: usize) -> bool {
    let raw = fmt06::read_archive(root, false);
    for n in 0..n_bands {
        let Some(b) = raw.bands.get(&n) else { continue };
        if b.head.is_none() {
            continue;
        }
        let model = stitch_model(&raw, n);
        let ic = Icept::with_budget(root, Mode::Log, 0, budget);
        let l = cs::list(ic.transport(1), Some(n), "/", &[]);
        run.eval();
        run.count("listings_compared", 1);
        if ic.over_budget() {
            run.violation("listing-does-not-terminate", format!("listing b{n:04} exceeded {budget} storage operations: {}", what()), replay.clone());
            return false;
        }
        if let Some(p) = &l.panic {
            run.violation(format!("listing-panic:{}", panic_site(p)), format!("b{n:04}: {p}: {}", what()), replay.clone());
            return false;
        }
        let Some(listed) = l.value() else {
            run.violation("listing-err", format!("b{n:04}: {}: {}", l.describe(), what()), replay.clone());
            return false;
        };
        let got: Vec<(&str, Option<&str>)> = listed.iter().map(|e| (e.apath.as_str(), e.target.as_deref())).collect();
        let want: Vec<(&str, Option<&str>)> = model.iter().map(|(_, e)| (e.apath.as_str(), e.target.as_deref())).collect();
        if got != want {
            let detail = if got.len().max(want.len()) <= 40 {
                format!("listing b{n:04} gave {got:?}, the rule gives {want:?}; archive {}", what())
            } else {
                let i = got.iter().zip(want.iter()).position(|(a, b)| a != b).unwrap_or(got.len().min(want.len()));
                let lo = i.saturating_sub(2);
                format!(
                    "listing b{n:04} gave {} entries, the rule gives {}; they first differ at position {i}: listed {:?}, rule {:?}; archive {}",
                    got.len(),
                    want.len(),
                    &got[lo.min(got.len())..(i + 3).min(got.len())],
                    &want[lo.min(want.len())..(i + 3).min(want.len())],
                    what()
                )
            };
            run.violation("listing-differs-from-stitching-rule", detail, replay.clone());
            return false;
        }
        if let Some((a, bb)) = first_disorder(got.iter().map(|g| g.0)) {
            run.violation("listing-not-strictly-increasing", format!("b{n:04}: {a:?} then {bb:?}; archive {}", what()), replay.clone());
            return false;
        }
        run.count("entries_compared", got.len() as u64);
        if model.iter().map(|(b, _)| *b).collect::<std::collections::BTreeSet<_>>().len() > 1 {
            run.count("listings_spanning_several_bands", 1);
        }
        if with_filters {
            for s in SUBTREES {
                let l = cs::list(cs::local(root), Some(n), s, &[]);
                let want: Vec<&str> = model.iter().map(|(_, e)| e.apath.as_str()).filter(|p| tree::is_under(p, s)).collect();
                let got: Option<Vec<&str>> = l.value().map(|v| v.iter().map(|e| e.apath.as_str()).collect());
                run.eval();
                run.count("filtered_listings_compared", 1);
                if got.as_ref() != Some(&want) {
                    run.violation(
                        "subtree-listing-differs-from-filtered-rule",
                        format!("b{n:04} subtree {s}: got {got:?} want {want:?}; archive {}", what()),
                        replay.clone(),
                    );
                    return false;
                }
            }
            for ex in EXCLUDES {
                let exs: Vec<String> = ex.iter().map(|s| s.to_string()).collect();
                let gm = GlobModel::new(&exs);
                let l = cs::list(cs::local(root), Some(n), "/", &exs);
                let want: Vec<&str> = model.iter().map(|(_, e)| e.apath.as_str()).filter(|p| !gm.excluded(p)).collect();
                let got: Option<Vec<&str>> = l.value().map(|v| v.iter().map(|e| e.apath.as_str()).collect());
                run.eval();
                run.count("filtered_listings_compared", 1);
                if got.as_ref() != Some(&want) {
                    run.violation(
                        "excluded-listing-differs-from-filtered-rule",
                        format!("b{n:04} exclude {ex:?}: got {got:?} want {want:?}; archive {}", what()),
                        replay.clone(),
                    );
                    return false;
                }
            }
        }
    }
    true
}

/// Like band_states, plus every state with one empty hunk inserted at every position.
pub fn band_states_with_empty_hunk(p: usize) -> Vec<BandState> {
    let base = band_states(p);
    let mut v = base.clone();
    for st in &base {
        if let BandState::Present { hunks, complete } = st {
            for pos in 0..=hunks.len() {
                let mut h = hunks.clone();
                h.insert(pos, Vec::new());
                v.push(BandState::Present { hunks: h, complete: *complete });
            }
        }
    }
    v
}

/// band_states plus the head-less directory states and the empty-BANDHEAD states.
pub fn band_states_with_headless(p: usize) -> Vec<BandState> {
    let mut v = band_states(p);
    v.push(BandState::Headless { hunks: vec![], tail: false });
    v.push(BandState::Headless { hunks: vec![(0..p).collect()], tail: true });
    v.push(BandState::Headless { hunks: vec![(0..p).collect()], tail: false });
    v.push(BandState::TornHead { hunks: vec![], tail: false });
    v.push(BandState::TornHead { hunks: vec![(0..p).collect()], tail: false });
    // a complete band whose head was emptied afterwards: it ends the chain and lists nothing
    v.push(BandState::TornHead { hunks: vec![(0..p).collect()], tail: true });
    v
}

fn sorted_paths(mut v: Vec<String>) -> Vec<String> {
    v.sort_by(|a, b| apath_cmp(a, b));
    v
}

fn exhaustive(run: &Run, b: usize, p: usize, paths: &[String], variant: u8) {
    let with_empty = variant == 1;
    let states = match variant { 1 => band_states_with_empty_hunk(p), 2 => band_states_with_headless(p), _ => band_states(p) };
    let total = (states.len() as u64).pow(b as u32);
    let threads = super::threads() as u64;
    let name = format!("B{b}P{p}{}", match variant { 1 => "E", 2 => "H", _ => "" });
    let _ = with_empty;
    run.count(&format!("space_{name}"), total);
    let done = std::sync::atomic::AtomicU64::new(0);
    std::thread::scope(|s| {
        for t in 0..threads {
            let states = &states;
            let done = &done;
            let name = &name;
            s.spawn(move || {
                let sc = Scratch::new("c08");
                let root = sc.join("a");
                let mut idx = t;
                while idx < total {
                    if run.n_violations() > 0 || run.out_of_time() {
                        break;
                    }
                    let mut digits = Vec::with_capacity(b);
                    let mut x = idx;
                    for _ in 0..b {
                        digits.push((x % states.len() as u64) as usize);
                        x /= states.len() as u64;
                    }
                    let bands: Vec<BandState> = digits.iter().map(|d| states[*d].clone()).collect();
                    write_archive(&root, paths, &bands);
                    let replay = json!({"space": name, "index": idx});
                    let what = || describe(&bands, paths);
                    check_archive(run, &root, b as u32, idx % 16 == 0, &replay, &what);
                    if bands.iter().filter(|s| matches!(s, BandState::Present { complete: false, .. })).count() >= 1
                        && bands.iter().filter(|s| **s != BandState::Absent).count() >= 2
                    {
                        run.nontrivial(fnv(format!("{name}:{idx}").as_bytes()));
                    }
                    done.fetch_add(1, std::sync::atomic::Ordering::Relaxed);
                    idx += threads;
                }
            });
        }
    });
    let d = done.load(std::sync::atomic::Ordering::Relaxed);
    run.count(&format!("archives_{name}"), d);
    run.count("archives_written_by_harness", d);
    if d < total {
        run.count("exhaustive_spaces_cut_short", 1);
    }
}

fn random_case(run: &Run, case: u64) {
    let mut rng = Rng::for_case(run.seed, case, 14);
    let n_paths = 2 + rng.below(11) as usize;
    let mut set = std::collections::BTreeSet::new();
    while set.len() < n_paths {
        let depth = 1 + rng.below(3);
        let mut p = String::new();
        for _ in 0..depth {
            p.push('/');
            p.push_str(*rng.pick(&["a", "a b", "ab", "a.b", "é", "x", "y", "-", "~"]));
        }
        set.insert(p);
    }
    let paths = sorted_paths(set.into_iter().collect());
    let nb = 1 + rng.below(6) as usize;
    let mut bands = Vec::new();
    for _ in 0..nb {
        if rng.chance(1, 6) {
            bands.push(BandState::Absent);
            continue;
        }
        let headless = rng.chance(1, 8);
        let subset: Vec<usize> = (0..paths.len()).filter(|_| rng.chance(2, 3)).collect();
        let mut hunks: Vec<Vec<usize>> = Vec::new();
        for pi in subset {
            if hunks.is_empty() || rng.chance(1, 3) {
                hunks.push(vec![pi]);
            } else {
                hunks.last_mut().unwrap().push(pi);
            }
        }
        // empty hunks are legal (old versions wrote them): insert one now and then
        if rng.chance(1, 3) {
            let pos = rng.below(hunks.len() as u64 + 1) as usize;
            hunks.insert(pos, Vec::new());
        }
        if headless {
            bands.push(BandState::Headless { hunks, tail: rng.chance(1, 2) });
        } else {
            bands.push(BandState::Present { hunks, complete: rng.chance(1, 3) });
        }
    }
    let sc = Scratch::new("c08r");
    let root = sc.join("a");
    write_archive(&root, &paths, &bands);
    // sometimes remove one hunk file: a gap or a missing trailing hunk
    let mut removed = None;
    if rng.chance(1, 3) {
        let cands: Vec<(usize, usize)> = bands
            .iter()
            .enumerate()
            .filter_map(|(i, b)| match b {
                BandState::Present { hunks, .. } | BandState::Headless { hunks, .. } | BandState::TornHead { hunks, .. } if !hunks.is_empty() => Some((i, hunks.len())),
                _ => None,
            })
            .collect();
        if !cands.is_empty() {
            let (bi, nh) = *rng.pick(&cands);
            let h = rng.below(nh as u64) as u32;
            let _ = std::fs::remove_file(root.join(fmt06::band_dirname(bi as u32)).join(fmt06::hunk_relpath(h)));
            removed = Some((bi, h));
            run.count("random_archives_with_removed_hunk", 1);
        }
    }
    run.count("archives_written_by_harness", 1);
    run.count("random_archives", 1);
    let replay = json!({"case": case});
    let what = || json!({"paths": paths, "bands": describe(&bands, &paths), "removed_hunk": removed});
    if !check_archive(run, &root, nb as u32, case % 4 == 0, &replay, &what) {
        return;
    }
    // a listing that claims success is the right listing, also when the storage misbehaves: every
    // operation of the listing of the newest version fails once (permission denied, unspecific,
    // already-exists; "not found" is an answer, not a failure, for a store that is asked whether
    // something is there); the result must be an error, a reported error, or the rule's listing
    if case % 5 == 2 && removed.is_none() && !bands.iter().any(|b| matches!(b, BandState::TornHead { .. })) {
        let raw = fmt06::read_archive(&root, false);
        if let Some(n) = raw.bands.iter().filter(|(_, b)| b.head.is_some()).map(|(id, _)| *id).max() {
            let model = stitch_model(&raw, n);
            let want: Vec<&str> = model.iter().map(|(_, e)| e.apath.as_str()).collect();
            let ic = Icept::new(&root, Mode::Log, 0);
            let base = cs::list(ic.transport(1), Some(n), "/", &[]);
            if base.clean() {
                let trace = ic.log();
                for k in 0..trace.len() {
                    // (probes included: since fix c9138df a probe that cannot be answered is reported)
                    for kind in [conserve::transport::ErrorKind::PermissionDenied, conserve::transport::ErrorKind::Other, conserve::transport::ErrorKind::AlreadyExists] {
                        let ic = Icept::with_budget(&root, Mode::FailAt { k, kind }, 0, 50_000);
                        let l = cs::list(ic.transport(1), Some(n), "/", &[]);
                        run.eval();
                        run.count("listings_under_a_single_fault", 1);
                        if l.panic.is_none() && l.clean() {
                            let got: Vec<&str> = l.value().unwrap().iter().map(|e| e.apath.as_str()).collect();
                            if got != want {
                                let at = ic.log().iter().find(|e| e.injected).map(|e| e.brief()).unwrap_or_default();
                                run.violation(
                                    "listing-under-fault-claims-success-but-differs-from-rule",
                                    format!("listing b{n:04} with {at} failing ({}) returned Ok, reported nothing and gave {got:?}; the rule gives {want:?}; archive {}", crate::icept::kind_name(kind), what()),
                                    json!({"case": case, "fault_k": k}),
                                );
                                return;
                            }
                        }
                    }
                }
            }
        }
    }
    run.nontrivial(fnv(format!("r{case}").as_bytes()));
    run.sample(|| what());
}

/// Scale: bands of more than 10 000 one-entry hunks (two index subdirectories), written by the
/// harness: a complete one, an incomplete one that stops inside the second subdirectory, and an
/// incomplete one of five hunks on top; every version is listed and compared with the rule.
fn many_hunks(run: &Run) {
    let sc = Scratch::new("c08big");
    let root = sc.join("arch");
    fmt06::write_archive_header(&root);
    let n0 = 10_040usize;
    let path = |i: usize| format!("/d/f{i:05}");
    let band = |id: u32, upto: usize, skip_every: usize| -> Vec<Vec<Value>> {
        let mut v = vec![vec![symlink_entry("/d", &format!("b{id}:/d"))]];
        v[0][0] = json!({"apath": "/d", "kind": "Dir", "mtime": 0, "unix_mode": 493});
        for i in 0..upto {
            if skip_every > 0 && i % skip_every == 3 {
                continue;
            }
            v.push(vec![symlink_entry(&path(i), &format!("b{id}:{}", path(i)))]);
        }
        v
    };
    fmt06::write_band(&root, 0, &band(0, n0, 0), true);
    fmt06::write_band(&root, 1, &band(1, 10_020, 7), false);
    fmt06::write_band(&root, 2, &band(2, 4, 0), false);
    let replay = json!({"many_hunks": true});
    let what = || json!("harness-written archive: b0000 complete with 10 041 one-entry hunks, b0001 incomplete with about 8 600 (every 7th path absent, stopping inside i/00001... of b0000's range), b0002 incomplete with 5");
    if check_archive_budget(run, &root, 3, false, &replay, &what, 2_000_000) {
        run.count("listings_of_versions_with_more_than_10000_hunks", 3);
    }
    // and below the directory only
    let raw = fmt06::read_archive(&root, false);
    for n in 0..3u32 {
        let model = stitch_model(&raw, n);
        let l = cs::list(cs::local(&root), Some(n), "/d/f10010", &[]);
        let want: Vec<&str> = model.iter().map(|(_, e)| e.apath.as_str()).filter(|p| tree::is_under(p, "/d/f10010")).collect();
        let got: Option<Vec<&str>> = l.value().map(|v| v.iter().map(|e| e.apath.as_str()).collect());
        run.eval();
        if got.as_ref() != Some(&want) {
            run.violation("subtree-listing-differs-from-filtered-rule", format!("b{n:04} subtree /d/f10010 of the 10 041-hunk archive: got {got:?} want {want:?}"), replay.clone());
            return;
        }
    }
}

/// Scale in the number of versions: a complete version under a chain of 130 interrupted ones
/// (a backup killed again and again at the same place), written by the harness; the newest and
/// a few others are listed and compared with the rule.
fn long_chain(run: &Run) {
    let sc = Scratch::new("c08chain");
    let root = sc.join("arch");
    fmt06::write_archive_header(&root);
    let paths: Vec<String> = ["/a", "/b", "/c", "/d", "/e", "/f"].iter().map(|s| s.to_string()).collect();
    let full: Vec<Vec<Value>> = paths.chunks(2).map(|c| c.iter().map(|p| symlink_entry(p, &format!("b0:{p}"))).collect()).collect();
    fmt06::write_band(&root, 0, &full, true);
    let n = 130u32;
    for id in 1..=n {
        // every interrupted version got as far as its first hunk; every 40th one a little further
        let upto = if id % 40 == 0 { 2 } else { 1 };
        let hv: Vec<Vec<Value>> = paths.chunks(2).take(upto).map(|c| c.iter().map(|p| symlink_entry(p, &format!("b{id}:{p}"))).collect()).collect();
        fmt06::write_band(&root, id, &hv, false);
    }
    let raw = fmt06::read_archive(&root, false);
    let replay = json!({"long_chain": true});
    for id in [n, n - 1, 101, 100, 41, 40, 1] {
        let model = stitch_model(&raw, id);
        let ic = Icept::with_budget(&root, Mode::Log, 0, 200_000);
        let l = cs::list(ic.transport(1), Some(id), "/", &[]);
        run.eval();
        let got: Option<Vec<(&str, Option<&str>)>> = l.value().map(|v| v.iter().map(|e| (e.apath.as_str(), e.target.as_deref())).collect());
        let want: Vec<(&str, Option<&str>)> = model.iter().map(|(_, e)| (e.apath.as_str(), e.target.as_deref())).collect();
        if ic.over_budget() || got.as_ref() != Some(&want) {
            run.violation(
                "listing-differs-from-stitching-rule",
                format!("complete b0000 under {n} interrupted versions that each stopped after /b (every 40th after /d): listing b{id:04} gave {got:?}, the rule gives {want:?} ({})", l.describe()),
                replay.clone(),
            );
            return;
        }
        run.count("listings_through_a_chain_of_more_than_100_interrupted_versions", (id > 100) as u64);
    }
}

pub fn run(tier: Tier, replay: Option<Value>) -> i32 {
    let run = Run::new("C08", "exploration", tier, replay.clone());
    let p4 = sorted_paths(vec!["/a".into(), "/a/x".into(), "/ab".into(), "/é".into()]);
    let p3 = sorted_paths(vec!["/a".into(), "/ab".into(), "/a/x".into()]);
    let p2 = sorted_paths(vec!["/a".into(), "/a/x".into()]);
    if let Some(r) = &replay {
        if let Some(space) = r.get("space").and_then(|s| s.as_str()) {
            let (b, p, paths, e) = match space {
                "B2P4" => (2, 4, &p4, 0u8),
                "B3P3" => (3, 3, &p3, 0),
                "B3P4" => (3, 4, &p4, 0),
                "B2P3E" => (2, 3, &p3, 1),
                "B3P2E" => (3, 2, &p2, 1),
                "B3P2H" => (3, 2, &p2, 2),
                "B3P3H" => (3, 3, &p3, 2),
                _ => (4, 2, &p2, 0),
            };
            let states = match e { 1 => band_states_with_empty_hunk(p), 2 => band_states_with_headless(p), _ => band_states(p) };
            let mut x = r["index"].as_u64().unwrap();
            let mut bands = Vec::new();
            for _ in 0..b {
                bands.push(states[(x % states.len() as u64) as usize].clone());
                x /= states.len() as u64;
            }
            let sc = Scratch::new("c08");
            let root = sc.join("a");
            write_archive(&root, paths, &bands);
            let what = || describe(&bands, paths);
            check_archive(&run, &root, b as u32, true, r, &what);
        } else if r.get("many_hunks").is_some() {
            many_hunks(&run);
        } else if r.get("long_chain").is_some() {
            long_chain(&run);
        } else {
            random_case(&run, r["case"].as_u64().unwrap_or(0));
        }
        return run.finish("replay", &[], None, &[]);
    }
    run.sample(|| json!({"path_alphabets": {"P4": p4, "P3": p3, "P2": p2}, "band_states_P4": band_states(4).len(), "band_states_P3": band_states(3).len()}));
    super::alongside(&run, "the many-hunks listing and the long chain", || { many_hunks(&run); long_chain(&run); }, || {
        exhaustive(&run, 2, 4, &p4, 0);
        exhaustive(&run, 3, 3, &p3, 0);
        exhaustive(&run, 2, 3, &p3, 1);
        exhaustive(&run, 3, 2, &p2, 2);
        // the random archives before the large spaces of the thorough tier: on a loaded machine
        // the soft time budget may cut a large space short (which the evidence then says), it
        // must never be what leaves the random part unobserved
        run.par_cases(tier.pick(3000, 50_000), super::threads(), |c| random_case(&run, c));
        if tier == Tier::Thorough {
            exhaustive(&run, 4, 2, &p2, 0);
            exhaustive(&run, 3, 2, &p2, 1);
            exhaustive(&run, 3, 3, &p3, 2);
            exhaustive(&run, 3, 4, &p4, 0);
        }
    });
    let exhaustive_ok = run.counter("exhaustive_spaces_cut_short") == 0;
    run.finish(
        "one harness-written archive of three versions with more than 10 000 one-entry hunks (complete; incomplete stopping in the second index subdirectory; incomplete with 5 hunks); one of a complete version under a chain of 130 interrupted ones; then archives written directly in the documented format by the harness: every assignment of {absent, every subset of a P-path alphabet x every split into consecutive non-empty hunks (or no hunk) x {complete, incomplete}} to B bands, exhaustively for (B=2,P=4) and (B=3,P=3), for (B=2,P=3) with one EMPTY hunk (a json [] as old versions wrote) inserted at every position, and for (B=3,P=2) with head-less band directories (empty; with hunks; with hunks and a tail — what a killed band creation or a killed version removal leaves) as additional states [thorough: also (B=4,P=2), (B=3,P=4), (B=3,P=2) with an empty hunk]; each entry is a symlink whose target names its band and path. For every existing N the real iter_entries(Specified(N)) must equal the executable stitching rule over the raw files (paths and targets), be strictly increasing under the C11 order model and finish within 50000 storage operations; on a 1-in-16 sample also with 5 subtrees and 4 exclusion sets against the filtered model. Random archives beyond (<=6 bands, <=12 paths, random splits, an empty hunk inserted in a third of the bands, a removed hunk file in a third of the archives). Distinct non-trivial = archives with an incomplete band and >= 2 existing bands (exhaustive part, by index) + random cases.",
        &["fmt06 writer produces what doc/format.md describes (cross-checked: conserve lists them)", "stitching rule as stated in oracle::stitch_model"],
        Some(exhaustive_ok),
        &[("listings_compared", 1000), ("listings_spanning_several_bands", 100), ("filtered_listings_compared", 100), ("random_archives", 100), ("listings_of_versions_with_more_than_10000_hunks", 3), ("listings_through_a_chain_of_more_than_100_interrupted_versions", 3), ("listings_under_a_single_fault", 300)],
    )
}
