//! Scratch directories on tmpfs, removed on drop.

use std::path::{Path, PathBuf};
use std::sync::atomic::{AtomicU64, Ordering};

static N: AtomicU64 = AtomicU64::new(0);

pub fn base() -> PathBuf {
    let b = std::env::var_os("CV_SCRATCH")
        .map(PathBuf::from)
        .unwrap_or_else(|| PathBuf::from("/dev/shm"));
    b.join(format!("cv-{}", std::process::id()))
}

/// Remove scratch areas left by dead processes.
pub fn reap_stale() {
    let parent = base().parent().unwrap().to_path_buf();
    if let Ok(rd) = std::fs::read_dir(&parent) {
        for e in rd.flatten() {
            let name = e.file_name().to_string_lossy().into_owned();
            if let Some(pid) = name.strip_prefix("cv-").and_then(|p| p.parse::<u32>().ok()) {
                if !Path::new(&format!("/proc/{pid}")).exists() {
                    let _ = std::fs::remove_dir_all(e.path());
                }
            }
        }
    }
}

pub fn cleanup_all() {
    let _ = std::fs::remove_dir_all(base());
}

pub struct Scratch {
    pub path: PathBuf,
    sub: AtomicU64,
}

impl Scratch {
    pub fn new(tag: &str) -> Scratch {
        let n = N.fetch_add(1, Ordering::SeqCst);
        let path = base().join(format!("{tag}-{n}"));
        std::fs::create_dir_all(&path).expect("create scratch");
        Scratch {
            path,
            sub: AtomicU64::new(0),
        }
    }

    pub fn join(&self, name: &str) -> PathBuf {
        self.path.join(name)
    }

    /// A fresh, not yet existing path below this scratch.
    pub fn fresh(&self, tag: &str) -> PathBuf {
        let n = self.sub.fetch_add(1, Ordering::SeqCst);
        self.path.join(format!("{tag}{n}"))
    }
}

impl Drop for Scratch {
    fn drop(&mut self) {
        // restored trees may contain unreadable modes; we are root, or else fix them up
        let _ = std::fs::remove_dir_all(&self.path);
    }
}

pub fn rm(p: &Path) {
    let _ = std::fs::remove_dir_all(p);
}
