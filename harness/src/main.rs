//! cv — runtime-monitoring checks for sourcefrog/conserve. See /verif/DESIGN.md.

mod cs;
mod damage;
mod fmt06;
mod history;
mod icept;
mod oracle;
mod props;
mod report;
mod rng;
mod scenario;
mod sched;
mod scratch;
mod tree;

use report::Tier;

fn main() {
    let args: Vec<String> = std::env::args().collect();
    if args.len() < 2 {
        eprintln!("usage: cv <C01..C18> <quick|thorough> [--replay <file>]");
        std::process::exit(64);
    }
    if args[1] == "c04-child" {
        std::process::exit(props::c04::child(&args[2..]));
    }
    if args[1] == "c09-child" {
        std::process::exit(props::c09::child(&args[2..]));
    }
    if args[1] == "c10-child" {
        std::process::exit(props::c10::child(&args[2..]));
    }
    report::install_panic_hook();
    scratch::reap_stale();
    let id = args[1].to_uppercase();
    let tier = match args.get(2).map(|s| s.as_str()) {
        Some("thorough") => Tier::Thorough,
        _ => Tier::Quick,
    };
    let mut replay = None;
    if let Some(i) = args.iter().position(|a| a == "--replay") {
        let p = args.get(i + 1).expect("--replay <file>");
        let v: serde_json::Value =
            serde_json::from_slice(&std::fs::read(p).expect("read replay file")).expect("replay json");
        replay = Some(v.get("replay").cloned().unwrap_or(v));
    }
    // Generous wall-clock watchdog: the soft budget (CV_BUDGET_S) only stops new cases from
    // starting; an operation that never returns (deadlock) would otherwise hang the check.
    // Its firing is inconclusive, never a violation: exit 2, no VIOLATION line.
    {
        let hard = std::env::var("CV_HARD_S").ok().and_then(|s| s.parse::<u64>().ok()).unwrap_or(tier.pick(1800, 10800));
        let id = id.clone();
        std::thread::spawn(move || {
            std::thread::sleep(std::time::Duration::from_secs(hard));
            eprintln!("watchdog: cases in flight: {:?}", report::in_flight());
            println!("INCONCLUSIVE property={id} hard wall-clock limit of {hard} s reached without a verdict (some operation did not return; see stderr for the cases in flight)");
            scratch::cleanup_all();
            std::process::exit(2);
        });
    }
    let code = props::dispatch(&id, tier, replay, &args[2..]);
    scratch::cleanup_all();
    std::process::exit(code);
}
