//! E6: verdicts, evidence, replay files, known findings, case sharding.

use std::cell::RefCell;
use std::collections::{BTreeMap, BTreeSet, HashSet};
use std::panic::{AssertUnwindSafe, catch_unwind};
use std::path::PathBuf;
use std::sync::Mutex;
use std::sync::atomic::{AtomicU64, Ordering};
use std::time::{Duration, Instant};

use serde_json::{Value, json};

#[derive(Clone, Copy, PartialEq, Eq, Debug)]
pub enum Tier {
    Quick,
    Thorough,
}

impl Tier {
    pub fn name(self) -> &'static str {
        match self {
            Tier::Quick => "quick",
            Tier::Thorough => "thorough",
        }
    }
    pub fn pick<T>(self, quick: T, thorough: T) -> T {
        match self {
            Tier::Quick => quick,
            Tier::Thorough => thorough,
        }
    }
}

pub fn verif_dir() -> PathBuf {
    std::env::var_os("CV_VERIF_DIR")
        .map(PathBuf::from)
        .unwrap_or_else(|| PathBuf::from("/verif"))
}

#[derive(Clone, Debug)]
pub struct Violation {
    /// Names the call site / window that failed; known findings are keyed on this.
    pub sig: String,
    pub what: String,
    pub replay: Value,
}

#[derive(Default)]
struct Inner {
    evaluations: u64,
    counters: BTreeMap<String, u64>,
    distinct: HashSet<u64>,
    samples: Vec<Value>,
    violations: Vec<Violation>,
    inconclusive: Vec<String>,
    sets: BTreeMap<String, BTreeSet<String>>,
}

pub struct Run {
    pub prop: &'static str,
    pub tier: Tier,
    pub seed: u64,
    pub level: &'static str,
    pub replay: Option<Value>,
    inner: Mutex<Inner>,
    start: Instant,
    deadline: Instant,
}

thread_local! {
    static LAST_PANIC: RefCell<Option<String>> = const { RefCell::new(None) };
}

pub fn install_panic_hook() {
    std::panic::set_hook(Box::new(|info| {
        let msg = if let Some(s) = info.payload().downcast_ref::<&str>() {
            s.to_string()
        } else if let Some(s) = info.payload().downcast_ref::<String>() {
            s.clone()
        } else {
            "<non-string panic>".to_string()
        };
        let loc = info
            .location()
            .map(|l| format!("{}:{}", l.file(), l.line()))
            .unwrap_or_default();
        LAST_PANIC.with(|p| *p.borrow_mut() = Some(format!("{msg} @ {loc}")));
    }));
}

/// Run `f`, turning a panic into Err(message @ location).
pub fn guard<T>(f: impl FnOnce() -> T) -> Result<T, String> {
    match catch_unwind(AssertUnwindSafe(f)) {
        Ok(v) => Ok(v),
        Err(_) => Err(LAST_PANIC
            .with(|p| p.borrow_mut().take())
            .unwrap_or_else(|| "panic".into())),
    }
}

/// The source location part of a guard() message, with the repo prefix stripped.
pub fn panic_site(msg: &str) -> String {
    match msg.rsplit_once(" @ ") {
        Some((_, loc)) => loc.trim_start_matches("/repo/").to_string(),
        None => "unknown".into(),
    }
}

static IN_FLIGHT: Mutex<BTreeMap<u64, (u64, Instant)>> = Mutex::new(BTreeMap::new());
static IN_FLIGHT_KEY: AtomicU64 = AtomicU64::new(0);

/// Cases started by par_cases that have not returned: (case number, seconds running).
pub fn in_flight() -> Vec<(u64, u64)> {
    IN_FLIGHT.lock().map(|m| m.values().map(|(c, t)| (*c, t.elapsed().as_secs())).collect()).unwrap_or_default()
}

impl Run {
    pub fn new(prop: &'static str, level: &'static str, tier: Tier, replay: Option<Value>) -> Run {
        let seed = std::env::var("VERIF_SEED")
            .ok()
            .and_then(|s| s.parse::<u64>().ok())
            .unwrap_or(1);
        let budget = std::env::var("CV_BUDGET_S")
            .ok()
            .and_then(|s| s.parse::<u64>().ok())
            .unwrap_or(tier.pick(150, 1500));
        let start = Instant::now();
        Run {
            prop,
            tier,
            seed,
            level,
            replay,
            inner: Mutex::new(Inner::default()),
            start,
            deadline: start + Duration::from_secs(budget),
        }
    }

    pub fn out_of_time(&self) -> bool {
        Instant::now() >= self.deadline
    }

    pub fn eval(&self) {
        self.inner.lock().unwrap().evaluations += 1;
    }

    pub fn evals(&self, n: u64) {
        self.inner.lock().unwrap().evaluations += n;
    }

    pub fn count(&self, name: &str, n: u64) {
        *self
            .inner
            .lock()
            .unwrap()
            .counters
            .entry(name.to_string())
            .or_insert(0) += n;
    }

    pub fn counter(&self, name: &str) -> u64 {
        self.inner
            .lock()
            .unwrap()
            .counters
            .get(name)
            .copied()
            .unwrap_or(0)
    }

    /// Record a member of a named set of things observed (reported by size).
    pub fn observe(&self, set: &str, member: impl Into<String>) {
        self.inner
            .lock()
            .unwrap()
            .sets
            .entry(set.to_string())
            .or_default()
            .insert(member.into());
    }

    /// Record the signature of a distinct non-trivial case.
    pub fn nontrivial(&self, sig: u64) {
        self.inner.lock().unwrap().distinct.insert(sig);
    }

    pub fn sample(&self, v: impl FnOnce() -> Value) {
        let mut g = self.inner.lock().unwrap();
        if g.samples.len() < 4 {
            let v = v();
            g.samples.push(v);
        }
    }

    pub fn violation(&self, sig: impl Into<String>, what: impl Into<String>, replay: Value) {
        let v = Violation {
            sig: sig.into(),
            what: what.into(),
            replay,
        };
        self.inner.lock().unwrap().violations.push(v);
    }

    pub fn n_violations(&self) -> usize {
        self.inner.lock().unwrap().violations.len()
    }

    pub fn inconclusive(&self, why: impl Into<String>) {
        let why = why.into();
        let mut g = self.inner.lock().unwrap();
        if g.inconclusive.len() < 50 {
            eprintln!("inconclusive: {why}");
        }
        g.inconclusive.push(why);
    }

    /// Run cases 0..n sharded over worker threads. A panic escaping a case is a harness
    /// error (conserve calls are individually guarded) and is counted as inconclusive.
    pub fn par_cases(&self, n: u64, threads: usize, f: impl Fn(u64) + Sync) {
        if let Some(r) = &self.replay {
            if let Some(c) = r.get("case").and_then(|c| c.as_u64()) {
                f(c);
                return;
            }
        }
        let next = AtomicU64::new(0);
        let threads = threads.max(1);
        std::thread::scope(|s| {
            for _ in 0..threads {
                s.spawn(|| {
                    loop {
                        let i = next.fetch_add(1, Ordering::SeqCst);
                        if i >= n {
                            break;
                        }
                        if self.out_of_time() {
                            self.count("cases_skipped_by_time_budget", 1);
                            continue;
                        }
                        let key = IN_FLIGHT_KEY.fetch_add(1, Ordering::SeqCst);
                        IN_FLIGHT.lock().unwrap().insert(key, (i, Instant::now()));
                        let t0 = Instant::now();
                        let r = guard(|| f(i));
                        IN_FLIGHT.lock().unwrap().remove(&key);
                        if std::env::var_os("CV_TRACE_SLOW").is_some() && t0.elapsed().as_secs() >= 5 {
                            eprintln!("slow case {i}: {:.1}s", t0.elapsed().as_secs_f64());
                        }
                        if let Err(msg) = r {
                            self.inconclusive(format!("harness error in case {i}: {msg}"));
                        }
                    }
                });
            }
        });
    }

    /// Write evidence, print verdict lines, return the process exit code.
    ///
    /// `needs` lists (counter, minimum): observations without which the run says nothing.
    pub fn finish(
        &self,
        rule: &str,
        assumptions: &[&str],
        exhaustive: Option<bool>,
        needs: &[(&str, u64)],
    ) -> i32 {
        let g = self.inner.lock().unwrap();
        let known = load_known(self.prop);
        let mut printed_known = BTreeSet::new();
        let mut new_violations: Vec<&Violation> = Vec::new();
        let mut known_hits = 0u64;
        let mut hits_by_sig: BTreeMap<String, u64> = BTreeMap::new();
        for v in &g.violations {
            if known.contains_key(&v.sig) {
                known_hits += 1;
                *hits_by_sig.entry(v.sig.clone()).or_insert(0) += 1;
                printed_known.insert(v.sig.clone());
            } else {
                new_violations.push(v);
            }
        }
        // every listed finding of this property is named, whether this run reached it or not
        if self.replay.is_none() {
            for (sig, what) in &known {
                println!(
                    "KNOWN-FINDING: property={} sig={} {} [observed {} times in this run]",
                    self.prop,
                    sig,
                    what,
                    hits_by_sig.get(sig).copied().unwrap_or(0)
                );
            }
        }
        let replay_dir = verif_dir().join("replays");
        let _ = std::fs::create_dir_all(&replay_dir);
        let mut seen_sigs = BTreeSet::new();
        let mut n_written = 0;
        for v in new_violations.iter() {
            if !seen_sigs.insert(v.sig.clone()) {
                continue;
            }
            if n_written >= 12 {
                break;
            }
            let path = replay_dir.join(format!("{}-{}-{}.json", self.prop, self.seed, n_written));
            n_written += 1;
            let body = json!({
                "property": self.prop, "seed": self.seed, "tier": self.tier.name(),
                "sig": v.sig, "what": v.what, "replay": v.replay,
            });
            let _ = std::fs::write(&path, serde_json::to_vec_pretty(&body).unwrap());
            println!("violation detail: sig={} {}", v.sig, v.what);
            println!("VIOLATION property={} replay={}", self.prop, path.display());
        }

        let mut coverage = serde_json::Map::new();
        coverage.insert("evaluations".into(), json!(g.evaluations));
        coverage.insert("distinct_nontrivial".into(), json!(g.distinct.len()));
        coverage.insert("rule".into(), json!(rule));
        coverage.insert("samples".into(), Value::Array(g.samples.clone()));
        if let Some(e) = exhaustive {
            coverage.insert("exhaustive".into(), json!(e));
        }
        coverage.insert("observed".into(), json!(g.counters));
        let set_sizes: BTreeMap<&String, usize> = g.sets.iter().map(|(k, v)| (k, v.len())).collect();
        coverage.insert("distinct_observed".into(), json!(set_sizes));
        coverage.insert("inconclusive_cases".into(), json!(g.inconclusive.len()));
        coverage.insert("known_finding_hits".into(), json!(known_hits));

        let mut missing = Vec::new();
        for (name, min) in needs {
            let have = g.counters.get(*name).copied().unwrap_or(0);
            if have < *min {
                missing.push(format!("{name}={have} < {min}"));
            }
        }
        if g.evaluations == 0 {
            missing.push("evaluations=0".into());
        }
        if g.distinct.len() < 2 && self.replay.is_none() {
            missing.push(format!("distinct_nontrivial={}", g.distinct.len()));
        }

        let evidence = json!({
            "property_id": self.prop,
            "tier": self.tier.name(),
            "seed": self.seed,
            "level": self.level,
            "coverage": Value::Object(coverage),
            "assumptions": assumptions,
            "wall_s": self.start.elapsed().as_secs_f64(),
            "violations": new_violations.len(),
        });
        if self.replay.is_none() {
            let dir = verif_dir().join("evidence");
            let _ = std::fs::create_dir_all(&dir);
            let path = dir.join(format!("{}.json", self.prop));
            if let Err(e) = std::fs::write(&path, serde_json::to_vec_pretty(&evidence).unwrap()) {
                eprintln!("cannot write evidence {path:?}: {e}");
            }
        }
        println!(
            "{} {} seed={} evaluations={} distinct_nontrivial={} violations={} known_hits={} inconclusive={} wall={:.1}s",
            self.prop,
            self.tier.name(),
            self.seed,
            g.evaluations,
            g.distinct.len(),
            new_violations.len(),
            known_hits,
            g.inconclusive.len(),
            self.start.elapsed().as_secs_f64()
        );
        for (k, v) in &g.counters {
            println!("  observed {k} = {v}");
        }
        for (k, v) in &g.sets {
            println!("  distinct {k} = {}", v.len());
        }
        if !new_violations.is_empty() {
            return 1;
        }
        if self.replay.is_some() {
            return 0;
        }
        if !missing.is_empty() {
            println!(
                "INCONCLUSIVE property={} monitors observed too little: {}",
                self.prop,
                missing.join(", ")
            );
            return 2;
        }
        0
    }
}

/// Map signature -> description for `known:` lines of this property.
fn load_known(prop: &str) -> BTreeMap<String, String> {
    let mut m = BTreeMap::new();
    let path = verif_dir().join("KNOWN_FINDINGS.txt");
    let Ok(text) = std::fs::read_to_string(path) else {
        return m;
    };
    for line in text.lines() {
        let line = line.trim();
        let Some(rest) = line.strip_prefix("known:") else {
            continue;
        };
        let mut it = rest.trim().splitn(3, ' ');
        let (Some(p), Some(s)) = (it.next(), it.next()) else {
            continue;
        };
        let what = it.next().unwrap_or("").to_string();
        if p.strip_prefix("property=") != Some(prop) {
            continue;
        }
        if let Some(sig) = s.strip_prefix("sig=") {
            m.insert(sig.to_string(), what);
        }
    }
    m
}
