//! E4: deterministic scheduler over storage operations of concurrently running actors.
//!
//! Each actor runs on its own OS thread with its own current-thread tokio runtime. The
//! interceptor parks every storage operation until the scheduler grants it. The scheduler
//! chooses only when every live actor is *settled*: its runtime thread is parked, it has no
//! granted operation still executing, and its top-level future has no pending wake-up. Then the
//! set of enabled operations is exact, and a schedule is the sequence of grants.

use std::collections::BTreeMap;
use std::future::Future;
use std::path::{Path, PathBuf};
use std::pin::Pin;
use std::sync::atomic::{AtomicBool, Ordering};
use std::sync::{Arc, Condvar, Mutex};
use std::task::{Context, Poll, Wake, Waker};
use std::time::{Duration, Instant};

use async_trait::async_trait;
use conserve::transport::hooked::{Decision, Interceptor, Op};
use conserve::transport::{ErrorKind, Transport, WriteMode};
use tokio::sync::oneshot;

use crate::icept::{Ev, FState, V, fstate};
use crate::rng::fnv;

struct Pending {
    id: u64,
    verb: V,
    path: String,
    grant: oneshot::Sender<()>,
}

#[derive(Default)]
struct ActorSt {
    started: bool,
    finished: bool,
    parked: bool,
    inflight: usize,
    pending: Vec<Pending>,
}

struct St {
    actors: BTreeMap<u32, ActorSt>,
    next_id: u64,
    log: Vec<Ev>,
    /// grant order: (actor, verb, path)
    grants: Vec<(u32, V, String)>,
    /// One fault addressed by (actor, verb, path, occurrence): the same fault under every schedule.
    fault: Option<(u32, V, String, usize, ErrorKind)>,
    fault_matches_seen: usize,
}

pub struct Sched {
    pub root: PathBuf,
    st: Mutex<St>,
    cv: Condvar,
    woken: BTreeMap<u32, Arc<AtomicBool>>,
}

impl Sched {
    pub fn new(root: &Path, actors: &[u32]) -> Arc<Sched> {
        let mut m = BTreeMap::new();
        let mut w = BTreeMap::new();
        for a in actors {
            m.insert(*a, ActorSt::default());
            w.insert(*a, Arc::new(AtomicBool::new(false)));
        }
        Arc::new(Sched {
            root: root.to_path_buf(),
            st: Mutex::new(St {
                actors: m,
                next_id: 0,
                log: Vec::new(),
                grants: Vec::new(),
                fault: None,
                fault_matches_seen: 0,
            }),
            cv: Condvar::new(),
            woken: w,
        })
    }

    /// Make the `nth` (0-based) operation `verb path` of `actor` fail with `kind`.
    pub fn set_fault(&self, actor: u32, verb: V, path: &str, nth: usize, kind: ErrorKind) {
        self.st.lock().unwrap().fault = Some((actor, verb, path.to_string(), nth, kind));
    }

    pub fn transport(self: &Arc<Self>, actor: u32) -> Transport {
        Transport::local(&self.root).with_interceptor(actor, self.clone() as Arc<dyn Interceptor>)
    }

    pub fn log(&self) -> Vec<Ev> {
        self.st.lock().unwrap().log.clone()
    }

    pub fn grants(&self) -> Vec<(u32, V, String)> {
        self.st.lock().unwrap().grants.clone()
    }

    fn set_parked(&self, actor: u32, parked: bool) {
        let mut st = self.st.lock().unwrap();
        if let Some(a) = st.actors.get_mut(&actor) {
            a.parked = parked;
        }
        drop(st);
        self.cv.notify_all();
    }

    /// Does this actor have operations requested or executing?
    pub fn actor_busy(&self, actor: u32) -> bool {
        let st = self.st.lock().unwrap();
        st.actors
            .get(&actor)
            .map(|a| !a.pending.is_empty() || a.inflight > 0)
            .unwrap_or(false)
    }

    /// Run `body` as actor `actor` on the current thread: builds the runtime with park
    /// callbacks, wraps the future so that wake-ups of the top-level future are visible.
    pub fn run_actor<T: 'static>(
        self: &Arc<Self>,
        actor: u32,
        body: impl FnOnce(Transport) -> Pin<Box<dyn Future<Output = T>>>,
    ) -> T {
        let s1 = self.clone();
        let s2 = self.clone();
        let rt = tokio::runtime::Builder::new_current_thread()
            .enable_all()
            .on_thread_park(move || s1.set_parked(actor, true))
            .on_thread_unpark(move || s2.set_parked(actor, false))
            .build()
            .expect("runtime");
        {
            let mut st = self.st.lock().unwrap();
            st.actors.get_mut(&actor).unwrap().started = true;
        }
        let flag = self.woken[&actor].clone();
        let fut = body(self.transport(actor));
        let sched = self.clone();
        let wrapped = Tracked {
            inner: Box::pin(async move {
                let r = fut.await;
                // let tasks detached from Drop (lock release) be scheduled like any operation
                for _ in 0..10 {
                    tokio::task::yield_now().await;
                }
                while sched.actor_busy(actor) {
                    tokio::time::sleep(Duration::from_micros(200)).await;
                }
                r
            }),
            flag,
        };
        let r = std::panic::catch_unwind(std::panic::AssertUnwindSafe(|| rt.block_on(wrapped)));
        {
            let mut st = self.st.lock().unwrap();
            let a = st.actors.get_mut(&actor).unwrap();
            a.finished = true;
            // anything still waiting for a grant is dropped with the runtime
            a.pending.clear();
        }
        self.cv.notify_all();
        drop(rt);
        match r {
            Ok(v) => v,
            Err(e) => std::panic::resume_unwind(e),
        }
    }

    /// Mark an actor as finished without having run (used when its thread could not start).
    pub fn abandon(&self, actor: u32) {
        let mut st = self.st.lock().unwrap();
        if let Some(a) = st.actors.get_mut(&actor) {
            a.finished = true;
            a.pending.clear();
        }
        drop(st);
        self.cv.notify_all();
    }

    /// Wait until every actor is finished or settled; return the enabled operations in
    /// canonical order, or None if all finished. Err on watchdog timeout.
    fn wait_settled(&self, timeout: Duration) -> Result<Option<Vec<(u32, u64, V, String)>>, String> {
        let deadline = Instant::now() + timeout;
        let mut st = self.st.lock().unwrap();
        loop {
            let mut all_finished = true;
            let mut all_settled = true;
            for (id, a) in st.actors.iter() {
                if a.finished {
                    continue;
                }
                all_finished = false;
                let woken = self.woken[id].load(Ordering::SeqCst);
                let settled = a.started && a.parked && a.inflight == 0 && !woken && !a.pending.is_empty();
                if !settled {
                    all_settled = false;
                }
            }
            if all_finished {
                return Ok(None);
            }
            if all_settled {
                let mut en: Vec<(u32, u64, V, String)> = Vec::new();
                for (id, a) in st.actors.iter() {
                    for p in &a.pending {
                        en.push((*id, p.id, p.verb, p.path.clone()));
                    }
                }
                en.sort_by(|x, y| (x.0, x.2, &x.3, x.1).cmp(&(y.0, y.2, &y.3, y.1)));
                return Ok(Some(en));
            }
            let now = Instant::now();
            if now >= deadline {
                let desc: Vec<String> = st
                    .actors
                    .iter()
                    .map(|(id, a)| {
                        format!(
                            "a{id}: started={} finished={} parked={} inflight={} pending={} woken={}",
                            a.started,
                            a.finished,
                            a.parked,
                            a.inflight,
                            a.pending.len(),
                            self.woken[id].load(Ordering::SeqCst)
                        )
                    })
                    .collect();
                return Err(format!("scheduler watchdog: {}", desc.join("; ")));
            }
            // The woken flag is not under the mutex: poll with a short timeout.
            let (g, _) = self.cv.wait_timeout(st, Duration::from_micros(300)).unwrap();
            st = g;
        }
    }

    fn grant(&self, actor: u32, req: u64) {
        let mut st = self.st.lock().unwrap();
        let a = st.actors.get_mut(&actor).unwrap();
        let pos = a.pending.iter().position(|p| p.id == req).expect("pending request");
        let p = a.pending.remove(pos);
        a.inflight += 1;
        st.grants.push((actor, p.verb, p.path.clone()));
        drop(st);
        let _ = p.grant.send(());
    }
}

#[async_trait]
impl Interceptor for Sched {
    async fn before(&self, op: &Op) -> Decision {
        let verb = V::of(op.verb);
        let (tx, rx) = oneshot::channel();
        {
            let mut st = self.st.lock().unwrap();
            let id = st.next_id;
            st.next_id += 1;
            let Some(a) = st.actors.get_mut(&op.actor) else {
                return Decision::Proceed;
            };
            a.pending.push(Pending {
                id,
                verb,
                path: op.path.clone(),
                grant: tx,
            });
        }
        self.cv.notify_all();
        if rx.await.is_err() {
            // scheduler went away: refuse
            return Decision::Fail(ErrorKind::Other);
        }
        // granted: record the event with the pre-state, while this actor is the only one running
        let full = self.root.join(&op.path);
        let mut st = self.st.lock().unwrap();
        let idx = st.log.len();
        st.log.push(Ev {
            idx,
            actor: op.actor,
            verb,
            path: op.path.clone(),
            create_new: op.write_mode.map(|m| m == WriteMode::CreateNew),
            payload_len: op.payload.as_ref().map(|p| p.len()).unwrap_or(0),
            payload_h: op.payload.as_ref().map(|p| fnv(p)).unwrap_or(0),
            pre: if verb.mutating() { Some(fstate(&full)) } else { None },
            post: None,
            result: None,
            injected: false,
        });
        if let Some((fa, fv, fp, nth, kind)) = st.fault.clone() {
            // a leading '*' addresses the path by its ending (the band number is not known ahead)
            let path_matches = match fp.strip_prefix('*') {
                Some(suffix) => op.path.ends_with(suffix),
                None => fp == op.path,
            };
            if fa == op.actor && fv == verb && path_matches {
                let seen = st.fault_matches_seen;
                st.fault_matches_seen += 1;
                if seen == nth {
                    st.log[idx].injected = true;
                    return Decision::Fail(kind);
                }
            }
        }
        Decision::Proceed
    }

    async fn after(&self, op: &Op, result: Result<usize, ErrorKind>) {
        let verb = V::of(op.verb);
        let full = self.root.join(&op.path);
        let post: Option<FState> = if verb.mutating() { Some(fstate(&full)) } else { None };
        let mut st = self.st.lock().unwrap();
        if let Some(ev) = st
            .log
            .iter_mut()
            .rev()
            .find(|e| e.result.is_none() && e.verb == verb && e.path == op.path && e.actor == op.actor)
        {
            ev.result = Some(result);
            ev.post = post;
        }
        if let Some(a) = st.actors.get_mut(&op.actor) {
            a.inflight = a.inflight.saturating_sub(1);
        }
        drop(st);
        self.cv.notify_all();
    }
}

/// Wraps the actor's top-level future: a wake-up of it sets `flag`, which is cleared at the
/// start of every poll. tokio calls on_thread_park even when block_on's future has just been
/// woken, so without this the scheduler would see "parked" one poll too early.
struct Tracked<T> {
    inner: Pin<Box<dyn Future<Output = T>>>,
    flag: Arc<AtomicBool>,
}

struct FlagWaker {
    flag: Arc<AtomicBool>,
    inner: Waker,
}

impl Wake for FlagWaker {
    fn wake(self: Arc<Self>) {
        self.flag.store(true, Ordering::SeqCst);
        self.inner.wake_by_ref();
    }
    fn wake_by_ref(self: &Arc<Self>) {
        self.flag.store(true, Ordering::SeqCst);
        self.inner.wake_by_ref();
    }
}

impl<T> Future for Tracked<T> {
    type Output = T;
    fn poll(mut self: Pin<&mut Self>, cx: &mut Context<'_>) -> Poll<T> {
        self.flag.store(false, Ordering::SeqCst);
        let w = Waker::from(Arc::new(FlagWaker {
            flag: self.flag.clone(),
            inner: cx.waker().clone(),
        }));
        let mut cx2 = Context::from_waker(&w);
        self.inner.as_mut().poll(&mut cx2)
    }
}

// ---------------------------------------------------------------------------
// Schedules

/// first actor to run, then preemption points: at grant number `step` switch to `actor`.
#[derive(Clone, Debug, PartialEq, Eq, Hash)]
pub struct Plan {
    pub first: u32,
    pub switches: Vec<(usize, u32)>,
}

impl Plan {
    pub fn to_json(&self) -> serde_json::Value {
        serde_json::json!({"first": self.first, "switches": self.switches})
    }
    pub fn from_json(v: &serde_json::Value) -> Plan {
        Plan {
            first: v["first"].as_u64().unwrap_or(1) as u32,
            switches: v["switches"]
                .as_array()
                .map(|a| {
                    a.iter()
                        .map(|s| (s[0].as_u64().unwrap() as usize, s[1].as_u64().unwrap() as u32))
                        .collect()
                })
                .unwrap_or_default(),
        }
    }
}

pub struct Driven {
    /// number of grants issued
    pub steps: usize,
    /// preemptions that actually took effect (the target actor had an enabled operation)
    pub effective_switches: usize,
    pub error: Option<String>,
}

/// Drive the actors (already started on their threads) according to `plan`.
pub fn drive(s: &Arc<Sched>, plan: &Plan, watchdog: Duration) -> Driven {
    let mut current = plan.first;
    let mut step = 0usize;
    let mut effective = 0usize;
    loop {
        let enabled = match s.wait_settled(watchdog) {
            Ok(Some(e)) => e,
            Ok(None) => {
                return Driven {
                    steps: step,
                    effective_switches: effective,
                    error: None,
                };
            }
            Err(e) => {
                // release everything so the actor threads can end
                release_all(s);
                return Driven {
                    steps: step,
                    effective_switches: effective,
                    error: Some(e),
                };
            }
        };
        if let Some((_, target)) = plan.switches.iter().find(|(at, _)| *at == step) {
            if enabled.iter().any(|e| e.0 == *target) {
                if *target != current {
                    effective += 1;
                }
                current = *target;
            }
        }
        if !enabled.iter().any(|e| e.0 == current) {
            // the running actor has nothing to do (finished or not started): switch for free
            current = enabled[0].0;
        }
        let pick = enabled.iter().find(|e| e.0 == current).unwrap();
        s.grant(pick.0, pick.1);
        step += 1;
        if step > 200_000 {
            release_all(s);
            return Driven {
                steps: step,
                effective_switches: effective,
                error: Some("step budget exceeded".into()),
            };
        }
    }
}

fn release_all(s: &Arc<Sched>) {
    // grant everything repeatedly until the actors finish
    let deadline = Instant::now() + Duration::from_secs(20);
    loop {
        let mut todo = Vec::new();
        {
            let st = s.st.lock().unwrap();
            if st.actors.values().all(|a| a.finished) {
                return;
            }
            for (id, a) in st.actors.iter() {
                for p in &a.pending {
                    todo.push((*id, p.id));
                }
            }
        }
        for (a, r) in todo {
            let ok = {
                let st = s.st.lock().unwrap();
                st.actors[&a].pending.iter().any(|p| p.id == r)
            };
            if ok {
                s.grant(a, r);
            }
        }
        if Instant::now() > deadline {
            return;
        }
        std::thread::sleep(Duration::from_millis(1));
    }
}

// ---------------------------------------------------------------------------
// Running two actors under a plan

pub type ActorBody<T> = Box<
    dyn FnOnce(Transport, Arc<conserve::monitor::test::TestMonitor>) -> Pin<Box<dyn Future<Output = Result<T, String>>>>
        + Send
        + 'static,
>;

fn spawn_actor<T: Send + 'static>(
    s: &Arc<Sched>,
    actor: u32,
    body: ActorBody<T>,
) -> std::thread::JoinHandle<crate::cs::Outcome<T>> {
    let s = s.clone();
    std::thread::spawn(move || {
        let monitor = conserve::monitor::test::TestMonitor::arc();
        let m2 = monitor.clone();
        let s2 = s.clone();
        let r = crate::report::guard(move || s2.run_actor(actor, move |t| body(t, m2)));
        if r.is_err() {
            s.abandon(actor);
        }
        let errors: Vec<String> = monitor.take_errors().into_iter().map(crate::cs::errstr).collect();
        match r {
            Ok(res) => crate::cs::Outcome {
                panic: None,
                result: Some(res),
                errors,
            },
            Err(p) => crate::cs::Outcome {
                panic: Some(p),
                result: None,
                errors,
            },
        }
    })
}

pub fn run_two<T1: Send + 'static, T2: Send + 'static>(
    s: &Arc<Sched>,
    a1: (u32, ActorBody<T1>),
    a2: (u32, ActorBody<T2>),
    plan: &Plan,
) -> (crate::cs::Outcome<T1>, crate::cs::Outcome<T2>, Driven) {
    let t1 = spawn_actor(s, a1.0, a1.1);
    let t2 = spawn_actor(s, a2.0, a2.1);
    let d = drive(s, plan, Duration::from_secs(30));
    let o1 = t1.join().expect("actor thread");
    let o2 = t2.join().expect("actor thread");
    (o1, o2, d)
}
